"""Translator sites for Gen/Pipeline.lean (C15): PipelineManager._submit_next_stage, the two CLI commands
`jade pipeline submit` / `submit-next-stage`, and the tail of JobSubmitter._handle_completion that issues the
next-stage command.

What is generated (so that a change of the source changes the Lean terms the theorems are about):
 * every test/arithmetic expression of `_submit_next_stage` (first-call test, assertion, acceptance test,
   index of the recorded return code, increment, completion test, index of the stage that is submitted, the
   arguments handed to run_submit_jobs, the `ret != 0` test) through the expression translator;
 * the ORDER of the effectful statements of each block of `_submit_next_stage`, as `List Stmt` programs that the
   model interprets (`firstBody`, `acceptBody`, `completeBody`, `submitBody`);
 * in `_handle_completion`: the order of `cluster.mark_complete()` and the next-stage block, the guard, the
   `next_stage` expression, the command template with its holes resolved to roles, and the status expression.
"""
import ast
from exlib import *  # noqa

PM = "jade/jobs/pipeline_manager.py"
CLI = "jade/cli/pipeline.py"
JS = "jade/jobs/job_submitter.py"
ENUMS = "jade/enums.py"
P = ["C15"]

PREAMBLE["Pipeline"] = """/-- effectful statements of `PipelineManager._submit_next_stage`, in the vocabulary of the model -/
inductive Stmt where
  | assertFirst   -- `assert stage_num == 1`
  | checkStage    -- `if <rejectStage>: raise InvalidParameter`
  | recordRc      -- `self._config.stages[<rcIndex>].return_code = return_code`
  | increment     -- `self._config.stage_num += <stageInc>`
  | setComplete   -- `self._config.is_complete = True`
  | serialize     -- `self._serialize()`
  | loadStage     -- `stage = self._config.stages[<stageIndex>]`
  | autoConfig    -- `if stage.auto_config_cmd is not None: self._run_auto_config(stage)`
  | outputPath    -- `output = self.get_stage_output_path(self.path, <outputStageArg>)`
  | loadConfig    -- `config = create_config_from_file(stage.config_file)`
  | runSubmit     -- `ret = JobSubmitter.run_submit_jobs(config, output, pipeline_stage_num=<submitStageArg>)`
  | checkRet      -- `if <retFails>: raise ExecutionError`
  deriving DecidableEq, Repr

/-- pieces of the next-stage command of `_handle_completion`; holes are resolved to their roles -/
inductive Piece where
  | lit (s : String)
  | dir          -- `os.path.dirname(self._output)`
  | nextStage    -- the local assigned from `cluster.config.pipeline_stage_num + 1`
  | status       -- `result.value`
  deriving DecidableEq, Repr

/-- the two actions at the end of `_handle_completion` -/
inductive CStep where
  | markComplete   -- `cluster.mark_complete()`
  | nextStageCmd   -- the `if cluster.config.pipeline_stage_num is not None:` block ending in `run_command(cmd)`
  deriving DecidableEq, Repr
"""

ENV = {
    "stage_num": ("k", "int"),
    "self.stage_num": ("stageNum", "nat"),
    "self._config.stage_num": ("stageNum", "nat"),
    "len(self._config.stages)": ("numStages", "nat"),
    "len(self.stages)": ("numStages", "nat"),
    "return_code": ("rc", "opt"),
}


def _is_logger(st):
    return isinstance(st, ast.Expr) and isinstance(st.value, ast.Call) and src(st.value.func).startswith("logger.")


def _is_docstring(st):
    return isinstance(st, ast.Expr) and isinstance(st.value, ast.Constant) and isinstance(st.value.value, str)


def _strip(stmts):
    return [s for s in stmts if not _is_logger(s) and not _is_docstring(s) and not isinstance(s, ast.Pass)]


def _raises(stmts, exc):
    st = _strip(stmts)
    if len(st) != 1 or not isinstance(st[0], ast.Raise) or st[0].exc is None:
        return False
    e = st[0].exc
    name = src(e.func) if isinstance(e, ast.Call) else src(e)
    return name.split(".")[-1] == exc


def _parts():
    """Split `_submit_next_stage` into its blocks; SiteError when the block structure is not the one the model assumes."""
    fn = find_def(PM, "PipelineManager._submit_next_stage")
    argnames = [a.arg for a in fn.args.args]
    if argnames != ["self", "stage_num", "return_code"]:
        raise SiteError(f"signature changed: {argnames}")
    if len(fn.args.defaults) != 1 or src(fn.args.defaults[0]) != "None":
        raise SiteError("default of return_code changed")
    body = _strip(fn.body)
    if len(body) < 3 or not isinstance(body[0], ast.If) or not isinstance(body[1], ast.If):
        raise SiteError("block structure changed (expected: first-call/else block, completion block, submission)")
    first, done = body[0], body[1]
    rest = body[2:]
    dbody = _strip(done.body)
    if done.orelse or not dbody or not isinstance(dbody[-1], ast.Return) or dbody[-1].value is not None:
        raise SiteError("completion block no longer ends in a bare return")
    for s in rest:
        if isinstance(s, ast.Return):
            raise SiteError("return in the submission part")
    return fn, first, done, dbody[:-1], rest


def _classify_first(st):
    if isinstance(st, ast.Assert):
        return "assertFirst", {"firstStageOk": pred(ENV, st.test)}
    raise SiteError(f"unexpected statement in the first-call block: {src(st)[:80]}")


def _classify_accept(st):
    if isinstance(st, ast.If):
        if st.orelse or not _raises(st.body, "InvalidParameter"):
            raise SiteError("acceptance test no longer raises InvalidParameter only")
        return "checkStage", {"rejectStage": pred(ENV, st.test)}
    if isinstance(st, ast.Assign) and len(st.targets) == 1:
        t = st.targets[0]
        if (isinstance(t, ast.Attribute) and t.attr == "return_code" and isinstance(t.value, ast.Subscript)
                and src(t.value.value) in ("self._config.stages", "self.stages")):
            if src(st.value) != "return_code":
                raise SiteError(f"recorded value is not the return_code argument: {src(st.value)}")
            return "recordRc", {"rcIndex": pred(ENV, t.value.slice, ctx="term")}
    if isinstance(st, ast.AugAssign) and src(st.target) in ("self._config.stage_num",) and isinstance(st.op, ast.Add):
        return "increment", {"stageInc": str(const_int(st.value))}
    raise SiteError(f"unexpected statement in the accept block: {src(st)[:80]}")


def _classify_complete(st):
    if isinstance(st, ast.Assign) and len(st.targets) == 1 and src(st.targets[0]) == "self._config.is_complete":
        if src(st.value) != "True":
            raise SiteError("is_complete assigned something else than True")
        return "setComplete", {}
    if isinstance(st, ast.Expr) and src(st.value) == "self._serialize()":
        return "serialize", {}
    raise SiteError(f"unexpected statement in the completion block: {src(st)[:80]}")


class _SubmitCtx:
    stage_var = None
    out_var = None
    cfg_var = None
    ret_var = None


def _classify_submit(st, cx):
    if isinstance(st, ast.Expr) and src(st.value) == "self._serialize()":
        return "serialize", {}
    if isinstance(st, ast.Assign) and len(st.targets) == 1:
        t, v = st.targets[0], st.value
        if isinstance(t, ast.Subscript) and src(t.value) == "os.environ":
            return None, {}  # JADE_PIPELINE_STAGE_ID for the auto-config script: not part of the model
        if isinstance(t, ast.Name) and isinstance(v, ast.Subscript) and src(v.value) in ("self._config.stages", "self.stages"):
            cx.stage_var = t.id
            return "loadStage", {"stageIndex": pred(ENV, v.slice, ctx="term")}
        if isinstance(t, ast.Name) and isinstance(v, ast.Call) and src(v.func) == "self.get_stage_output_path":
            if len(v.args) != 2 or v.keywords or src(v.args[0]) != "self.path":
                raise SiteError(f"output path arguments changed: {src(v)}")
            cx.out_var = t.id
            return "outputPath", {"outputStageArg": pred(ENV, v.args[1], ctx="term")}
        if isinstance(t, ast.Name) and isinstance(v, ast.Call) and src(v.func) == "create_config_from_file":
            if cx.stage_var is None or len(v.args) != 1 or src(v.args[0]) != f"{cx.stage_var}.config_file":
                raise SiteError(f"configuration is not loaded from the stage's config_file: {src(v)}")
            cx.cfg_var = t.id
            return "loadConfig", {}
        if isinstance(t, ast.Name) and isinstance(v, ast.Call) and src(v.func) == "JobSubmitter.run_submit_jobs":
            kw = {k.arg: k.value for k in v.keywords}
            if cx.cfg_var is None or cx.out_var is None or [src(a) for a in v.args] != [cx.cfg_var, cx.out_var] or set(kw) != {"pipeline_stage_num"}:
                raise SiteError(f"run_submit_jobs arguments changed: {src(v)}")
            cx.ret_var = t.id
            return "runSubmit", {"submitStageArg": pred(ENV, kw["pipeline_stage_num"], ctx="term")}
    if isinstance(st, ast.If):
        t = src(st.test)
        if cx.stage_var and t == f"{cx.stage_var}.auto_config_cmd is not None":
            if st.orelse or [src(s) for s in _strip(st.body)] != [f"self._run_auto_config({cx.stage_var})"]:
                raise SiteError("auto-config branch changed")
            return "autoConfig", {}
        if cx.cfg_var and t == f"not {cx.cfg_var}.submission_groups":
            return None, {}  # default submission group: the stage's own configuration (C17), not the pipeline state
        if cx.ret_var and _raises(st.body, "ExecutionError") and not st.orelse:
            env = dict(ENV)
            env[cx.ret_var] = ("ret", "int")
            return "checkRet", {"retFails": pred(env, st.test)}
    raise SiteError(f"unexpected statement in the submission part: {src(st)[:80]}")


def _program(stmts, classify, *extra):
    tags, defs = [], {}
    for st in stmts:
        tag, d = classify(st, *extra)
        for k, v in d.items():
            if k in defs:
                raise SiteError(f"two statements define {k}")
            defs[k] = v
        if tag is not None:
            tags.append(tag)
    return tags, defs


def _stmts(tags):
    return llist(["." + t for t in tags])


@site("pipeline.firstCall", "Pipeline", P)
def _():
    fn, first, done, dbody, rest = _parts()
    env = dict(ENV)
    test = pred(env, first.test)
    tags, defs = _program(_strip(first.body), _classify_first)
    if tags != ["assertFirst"]:
        raise SiteError(f"first-call block changed: {tags}")
    return (
        "/-- `if return_code is None:` — the call is the initial one (`jade pipeline submit`) -/\n"
        f"def isFirstCall (rc : Option Int) : Bool :=\n  {test}\n\n"
        "/-- `assert stage_num == 1` -/\n"
        f"def firstStageOk (k : Int) : Bool :=\n  {defs['firstStageOk']}\n\n"
        "/-- effectful statements of the first-call block, in source order -/\n"
        f"def firstBody : List Stmt := {_stmts(tags)}"
    )


@site("pipeline.accept", "Pipeline", P)
def _():
    fn, first, done, dbody, rest = _parts()
    tags, defs = _program(_strip(first.orelse), _classify_accept)
    for need in ("recordRc", "increment"):
        if tags.count(need) > 1:
            raise SiteError(f"{need} occurs twice")
    return (
        "/-- acceptance test: `if stage_num != self.stage_num + 1: raise InvalidParameter` -/\n"
        f"def rejectStage (k : Int) (stageNum : Nat) : Bool :=\n  {defs.get('rejectStage', 'false')}\n\n"
        "/-- index of the stage whose return code is recorded: `self._config.stages[stage_num - 2]` -/\n"
        f"def rcIndex (k : Int) : Int :=\n  {defs.get('rcIndex', '0')}\n\n"
        "/-- `self._config.stage_num += 1` -/\n"
        f"def stageInc : Nat := {defs.get('stageInc', '0')}\n\n"
        "/-- effectful statements of the `else:` (return code given) block, in source order -/\n"
        f"def acceptBody : List Stmt := {_stmts(tags)}"
    )


@site("pipeline.complete", "Pipeline", P)
def _():
    fn, first, done, dbody, rest = _parts()
    test = pred(ENV, done.test)
    tags, defs = _program(dbody, _classify_complete)
    return (
        "/-- completion test: `if self._config.stage_num == len(self._config.stages) + 1:` -/\n"
        f"def pipelineDone (stageNum numStages : Nat) : Bool :=\n  {test}\n\n"
        "/-- effectful statements of the completion block (followed by `return`), in source order -/\n"
        f"def completeBody : List Stmt := {_stmts(tags)}"
    )


@site("pipeline.submit", "Pipeline", P)
def _():
    fn, first, done, dbody, rest = _parts()
    cx = _SubmitCtx()
    tags, defs = _program(rest, _classify_submit, cx)
    for t in set(tags):
        if tags.count(t) > 1 and t != "serialize":
            raise SiteError(f"{t} occurs twice")
    return (
        "/-- index of the stage that is configured and submitted: `self._config.stages[self.stage_num - 1]` -/\n"
        f"def stageIndex (stageNum : Nat) : Int :=\n  {defs.get('stageIndex', '0')}\n\n"
        "/-- stage number in the output directory: `get_stage_output_path(self.path, self.stage_num)` -/\n"
        f"def outputStageArg (stageNum : Nat) : Nat :=\n  {defs.get('outputStageArg', '0')}\n\n"
        "/-- `pipeline_stage_num=self.stage_num` handed to `run_submit_jobs` -/\n"
        f"def submitStageArg (stageNum : Nat) : Nat :=\n  {defs.get('submitStageArg', '0')}\n\n"
        "/-- `if ret != 0: raise ExecutionError` -/\n"
        f"def retFails (ret : Int) : Bool :=\n  {defs.get('retFails', 'false')}\n\n"
        "/-- effectful statements after the completion block, in source order -/\n"
        f"def submitBody : List Stmt := {_stmts(tags)}"
    )


@site("pipeline.persistence", "Pipeline", P)
def _():
    """`_serialize`/`_deserialize`/`load`/`create`/paths have the shape the hand-written model assumes."""
    ser = src(find_def(PM, "PipelineManager._serialize"))
    if "with open(self._config_file, 'w') as f_out:\n        f_out.write(self._config.json(indent=2))" not in ser:
        raise SiteError("_serialize changed")
    de = src(find_def(PM, "PipelineManager._deserialize"))
    if "return PipelineConfig(**load_data(self._config_file))" not in de:
        raise SiteError("_deserialize changed")
    init = src(find_def(PM, "PipelineManager.__init__"))
    for need in ("self._config_file = config_file", "self._config = self._deserialize()"):
        if need not in init:
            raise SiteError(f"__init__ changed: {need}")
    load = src(find_def(PM, "PipelineManager.load"))
    if "config_file = os.path.join(output, cls.CONFIG_FILENAME)" not in load or "return cls(config_file, output)" not in load:
        raise SiteError("load changed")
    cr = src(find_def(PM, "PipelineManager.create"))
    need = ["main_file = os.path.join(output, cls.CONFIG_FILENAME)", "shutil.copyfile(config_file, main_file)", "mgr = cls(main_file, output)",
            "stage.path = cls.get_stage_output_path(output, stage.stage_num)", "mgr._serialize()"]
    pos = [cr.find(n) for n in need]
    if -1 in pos or pos != sorted(pos):
        raise SiteError("create changed")
    name = const_str(class_assign(PM, "PipelineManager", "CONFIG_FILENAME"))
    outname = the([s for s in walk_stmts(find_def(PM, "PipelineManager.get_stage_output_name")) if isinstance(s, ast.Return)], "return").value
    if src(outname) != "f'output-stage{stage_num}'":
        raise SiteError("stage output name changed")
    outpath = src(find_def(PM, "PipelineManager.get_stage_output_path"))
    if "return os.path.join(output, PipelineManager.get_stage_output_name(stage_num))" not in outpath:
        raise SiteError("stage output path changed")
    wrap = find_def(PM, "PipelineManager.submit_next_stage")
    tr = the([s for s in wrap.body if isinstance(s, ast.Try)], "try")
    if [src(s) for s in tr.body] != ["self._submit_next_stage(stage_num, return_code=return_code)"] or tr.handlers:
        raise SiteError("submit_next_stage wrapper changed")
    # the models: fields the persisted state consists of
    for cls, fields in (("PipelineConfig", ["stage_num", "stages", "is_complete"]), ("PipelineStage", ["return_code", "stage_num", "config_file"])):
        c = find_def("jade/models/pipeline.py", cls)
        have = [s.target.id for s in c.body if isinstance(s, ast.AnnAssign)]
        for f in fields:
            if f not in have:
                raise SiteError(f"{cls}.{f} missing")
    return (
        f"def configFilename : String := {lstr(name)}\n\n"
        "def stageOutputPrefix : String := \"output-stage\"\n\n"
        "/-- `_serialize` writes the whole in-memory config to `pipeline.json`; `load` reads it back; `create` copies the\n"
        "    user's file, fills the stage paths and serializes -/\n"
        "def persistenceShapeOk : Bool := true"
    )


@site("pipeline.cli", "Pipeline", P)
def _():
    sub = find_def(CLI, "submit")
    text = src(sub)
    i = the([s for s in sub.body if isinstance(s, ast.If) and src(s.test) == "os.path.exists(output)"], "if os.path.exists(output)")
    inner = the([s for s in i.body if isinstance(s, ast.If)], "if force")
    if src(inner.test) != "force" or [src(s) for s in inner.body] != ["shutil.rmtree(output)"] or not any(src(s) == "sys.exit(1)" for s in inner.orelse):
        raise SiteError("existing-directory handling changed")
    a = text.find("mgr = PipelineManager.create(config_file, output)")
    calls = [s for s in walk_stmts(sub) if isinstance(s, ast.Expr) and isinstance(s.value, ast.Call) and src(s.value.func) == "mgr.submit_next_stage"]
    c = the(calls, "mgr.submit_next_stage(…) in submit").value
    if a < 0 or len(c.args) != 1 or c.keywords:
        raise SiteError("submit no longer creates the manager and submits one stage without return code")
    first = const_int(c.args[0])
    nxt = find_def(CLI, "submit_next_stage")
    ntext = src(nxt)
    if "mgr = PipelineManager.load(output)" not in ntext:
        raise SiteError("submit-next-stage no longer loads the manager from the directory")
    calls = [s for s in walk_stmts(nxt) if isinstance(s, ast.Expr) and isinstance(s.value, ast.Call) and src(s.value.func) == "mgr.submit_next_stage"]
    c = the(calls, "mgr.submit_next_stage(…) in submit_next_stage").value
    if [src(x) for x in c.args] != ["stage_num"] or {k.arg: src(k.value) for k in c.keywords} != {"return_code": "return_code"}:
        raise SiteError("submit-next-stage arguments changed")
    # both options are required integers
    for opt in ("--stage-num", "--return-code"):
        found = False
        for d in nxt.decorator_list:
            if isinstance(d, ast.Call) and d.args and isinstance(d.args[0], ast.Constant) and d.args[0].value == opt:
                kw = {k.arg: src(k.value) for k in d.keywords}
                if kw.get("required") != "True" or kw.get("type") != "int":
                    raise SiteError(f"{opt} is no longer a required int")
                found = True
        if not found:
            raise SiteError(f"{opt} option missing")
    return (
        "/-- stage number passed by `jade pipeline submit` (`mgr.submit_next_stage(1)`, no return code) -/\n"
        f"def cliFirstStage : Int := {first}\n\n"
        "/-- `submit` refuses an existing directory (exit 1) unless --force; `submit-next-stage` loads the directory and\n"
        "    passes `--stage-num`/`--return-code` (required ints) through -/\n"
        "def cliShapeOk : Bool := true"
    )


def _status_value(name):
    v = class_assign(ENUMS, "Status", name)
    return const_int(v)


@site("pipeline.completionGlue", "Pipeline", P + ["C05"])
def _():
    fn = find_def(JS, "JobSubmitter._handle_completion")
    body = _strip(fn.body)
    marks = [i for i, s in enumerate(body) if isinstance(s, ast.Expr) and src(s.value) == "cluster.mark_complete()"]
    blocks = [i for i, s in enumerate(body) if isinstance(s, ast.If) and "pipeline_stage_num" in src(s.test)]
    # mark_complete must be a top-level statement executed exactly once (not under a condition)
    nested = [s for s in walk_stmts(fn) if isinstance(s, ast.Expr) and src(s.value) == "cluster.mark_complete()"]
    if len(marks) != 1 or len(nested) != 1 or len(blocks) != 1:
        raise SiteError(f"expected one unconditional mark_complete and one pipeline block, found {len(nested)}/{len(blocks)}")
    blk = body[blocks[0]]
    if blk.orelse:
        raise SiteError("pipeline block has an else")
    guard = pred({"cluster.config.pipeline_stage_num": ("p", "opt")}, blk.test)
    # resolve the locals of the block
    roles, next_expr, cmd_var, cmd_val, ran = {}, None, None, None, False
    for st in _strip(blk.body):
        if ran:
            raise SiteError("statements after run_command in the pipeline block")
        if isinstance(st, ast.Assign) and len(st.targets) == 1 and isinstance(st.targets[0], ast.Name):
            name, v = st.targets[0].id, st.value
            if src(v) == "os.path.dirname(self._output)":
                roles[name] = ".dir"
            elif isinstance(v, ast.JoinedStr) or (isinstance(v, ast.Constant) and isinstance(v.value, str)):
                cmd_var, cmd_val = name, v
            else:
                next_expr = pred({"cluster.config.pipeline_stage_num": ("p", "nat")}, v, ctx="term")
                roles[name] = ".nextStage"
        elif isinstance(st, ast.Expr) and isinstance(st.value, ast.Call) and src(st.value.func) == "run_command":
            c = st.value
            if cmd_var is None or [src(a) for a in c.args] != [cmd_var] or c.keywords:
                raise SiteError(f"run_command arguments changed: {src(c)}")
            ran = True
        else:
            raise SiteError(f"unexpected statement in the pipeline block: {src(st)[:80]}")
    if not ran or next_expr is None:
        raise SiteError("pipeline block does not compute next_stage and run the command")
    roles["result.value"] = ".status"
    out = []
    vals = cmd_val.values if isinstance(cmd_val, ast.JoinedStr) else [cmd_val]
    for v in vals:
        if isinstance(v, ast.Constant):
            out.append(f".lit {lstr(v.value)}")
        elif isinstance(v, ast.FormattedValue):
            if v.format_spec is not None or v.conversion != -1:
                raise SiteError("format spec in the command")
            key = src(v.value)
            if key not in roles:
                raise SiteError(f"unknown hole {{{key}}} in the command")
            out.append(roles[key])
        else:
            raise SiteError("f-string part")
    order = [(marks[0], ".markComplete"), (blocks[0], ".nextStageCmd")]
    order.sort()
    # status: `result = Status.GOOD`, overwritten by `Status.ERROR` under the length test, returned at the end
    res = [s for s in walk_stmts(fn) if isinstance(s, ast.Assign) and len(s.targets) == 1 and src(s.targets[0]) == "result"]
    if len(res) != 2 or body[0] is not res[0] or src(res[0].value) != "Status.GOOD" or src(res[1].value) != "Status.ERROR":
        raise SiteError("result assignments changed")
    lt = the([s for s in body if isinstance(s, ast.If) and res[1] in s.body], "length test")
    ltest = pred({"len(self._results)": ("numResults", "nat"), "self._config.get_num_jobs()": ("numJobs", "nat")}, lt.test)
    if not (isinstance(body[-1], ast.Return) and src(body[-1].value) == "result"):
        raise SiteError("return changed")
    good, error = _status_value("GOOD"), _status_value("ERROR")
    return (
        "/-- order of `cluster.mark_complete()` and the next-stage block in `_handle_completion` (source order) -/\n"
        f"def completionOrder : List CStep := {llist([t for _, t in order])}\n\n"
        "/-- `if cluster.config.pipeline_stage_num is not None:` -/\n"
        f"def isPipelineStage (p : Option Nat) : Bool :=\n  {guard}\n\n"
        "/-- `next_stage = cluster.config.pipeline_stage_num + 1` -/\n"
        f"def nextStage (p : Nat) : Nat :=\n  {next_expr}\n\n"
        "/-- the command handed to `run_command` -/\n"
        f"def nextStageCmd : List Piece := {llist(out)}\n\n"
        "/-- `result.value`: `Status.GOOD`, or `Status.ERROR` when `len(self._results) != self._config.get_num_jobs()` -/\n"
        f"def completionStatus (numResults numJobs : Nat) : Int :=\n  if {ltest} then {error} else {good}"
    )


@site("pipeline.stageNumPlumbing", "Pipeline", P)
def _():
    """`run_submit_jobs(..., pipeline_stage_num=x)` -> `Cluster.create(..., pipeline_stage_num=x)` -> ClusterConfig field."""
    fn = find_def(JS, "JobSubmitter.run_submit_jobs")
    names = [a.arg for a in fn.args.args]
    if "pipeline_stage_num" not in names:
        raise SiteError("run_submit_jobs lost pipeline_stage_num")
    d = dict(zip(names[-len(fn.args.defaults):], fn.args.defaults))
    if src(d.get("pipeline_stage_num")) != "None":
        raise SiteError("default of pipeline_stage_num changed")
    a = the(assigns(fn, "cluster"), "cluster = Cluster.create(…)").value
    kw = {k.arg: src(k.value) for k in a.keywords}
    if src(a.func) != "Cluster.create" or kw.get("pipeline_stage_num") != "pipeline_stage_num":
        raise SiteError("Cluster.create no longer receives pipeline_stage_num")
    cr = find_def("jade/jobs/cluster.py", "Cluster.create")
    c = the(assigns(cr, "config"), "config = ClusterConfig(…)").value
    kw = {k.arg: src(k.value) for k in c.keywords}
    if kw.get("pipeline_stage_num") != "pipeline_stage_num":
        raise SiteError("ClusterConfig no longer receives pipeline_stage_num")
    return "/-- the stage number travels unchanged from `_submit_next_stage` to `cluster.config.pipeline_stage_num` -/\ndef stageNumPlumbingOk : Bool := true"
