"""Translator sites for Gen/Queue.lean: the node-level job queue (JobQueue.submit / process_queue /
_check_completions / _run_job / is_full / wait / run), what AsyncCliCommand contributes to it (cancel,
is_complete, run's status, the blocker delegation) and the worker computation of JobRunner._run_jobs.
Consumed by Model/Queue.lean (C02, C04, C06 node level; also C01/C03 starts and rows)."""
import ast
from exlib import *  # noqa

QUEUE = "jade/jobs/job_queue.py"
ACC = "jade/jobs/async_cli_command.py"
RUNNER = "jade/jobs/job_runner.py"
ENUMS = "jade/enums.py"
P_Q = ["C01", "C02", "C03", "C04", "C06"]


class QTr(Tr):
    """exlib.Tr plus `max(a, b)` (so that a min/max swap changes the generated term instead of going stale)"""

    def t_Call(self, n):
        f = n.func
        if isinstance(f, ast.Name) and f.id == "max" and len(n.args) == 2 and not n.keywords:
            a, b = self.tr(n.args[0]), self.tr(n.args[1])
            return (f"(max {a[0]} {b[0]})", a[1])
        return super().t_Call(n)


def qpred(env, node, ctx="bool"):
    t = QTr(env)
    if ctx == "bool":
        return t.truth(node)
    return t.tr(node)[0]


def _is_log(st):
    return isinstance(st, ast.Expr) and isinstance(st.value, ast.Call) and src(st.value.func).startswith("logger.")


def _is_doc(st):
    return isinstance(st, ast.Expr) and isinstance(st.value, ast.Constant) and isinstance(st.value.value, str)


def _stmts(body):
    """statements without logging calls and docstrings"""
    return [s for s in body if not _is_log(s) and not _is_doc(s)]


def _srcs(body):
    return [src(s) for s in _stmts(body)]


def _enum_members(rel, cls):
    c = find_def(rel, cls)
    out = []
    for st in c.body:
        if isinstance(st, ast.Assign) and len(st.targets) == 1 and isinstance(st.targets[0], ast.Name):
            out.append((st.targets[0].id, st.value))
    if not out:
        raise SiteError(f"{cls} has no members")
    return out


@site("nodeq.enums", "Queue", P_Q)
def _():
    st = _enum_members(ENUMS, "Status")
    names = [n for n, _ in st]
    if "GOOD" not in names:
        raise SiteError("Status.GOOD missing")
    jcs = {n: v for n, v in _enum_members(ENUMS, "JobCompletionStatus")}
    if const_str(jcs.get("FINISHED")) != "finished" or const_str(jcs.get("CANCELED")) != "canceled":
        raise SiteError("JobCompletionStatus values changed")
    return (
        "/-- `jade.enums.Status` (what `AsyncJobInterface.run` returns) -/\n"
        "inductive RunStatus where\n" + "".join(f"  | {n}\n" for n in names) + "  deriving DecidableEq, Repr\n\n"
        "/-- `jade.enums.JobCompletionStatus` of a recorded row (`finished` / `canceled`; `missing` is never written by a node) -/\n"
        "inductive RowStatus where\n  | finished\n  | canceled\n  deriving DecidableEq, Repr\n\n"
        "def RowStatus.toString : RowStatus → String\n  | .finished => \"finished\"\n  | .canceled => \"canceled\""
    )


@site("nodeq.isFull", "Queue", P_Q + ["C05", "C07"])
def _():
    fn = find_def(QUEUE, "JobQueue.is_full")
    r = the([s for s in walk_stmts(fn) if isinstance(s, ast.Return)], "return")
    env = {"len(self._outstanding_jobs)": ("numOutstanding", "nat"), "self._queue_depth": ("depth", "nat")}
    return "/-- `JobQueue.is_full` -/\ndef isFull (numOutstanding depth : Nat) : Bool :=\n  " + qpred(env, r.value)


@site("nodeq.init", "Queue", P_Q)
def _():
    fn = find_def(QUEUE, "JobQueue.__init__")
    text = [src(s) for s in fn.body]
    need = ["self._queue_depth = max_queue_depth", "self._outstanding_jobs = OrderedDict()", "self._queued_jobs = []",
            "self._num_jobs = 0", "self._num_completed = 0"]
    for n in need:
        if n not in text:
            raise SiteError(f"__init__ no longer contains `{n}`")
    rj = find_def(QUEUE, "JobQueue.run_jobs")
    body = _srcs(rj.body)
    if len(body) != 2 or not body[0].startswith("queue = cls(max_queue_depth,") or body[1] != "queue.run(jobs)":
        raise SiteError(f"run_jobs changed: {body}")
    if "existing_jobs" in body[0]:
        raise SiteError("run_jobs passes existing_jobs")
    return ("/-- a fresh queue: depth = max_queue_depth, ordered-dict outstanding, list queued, counters 0;\n"
            "    `run_jobs` = construct, then `run(jobs)` -/\ndef initShapeOk : Bool := true")


@site("nodeq.submit", "Queue", P_Q)
def _():
    fn = find_def(QUEUE, "JobQueue.submit")
    body = _stmts(fn.body)
    if len(body) != 1 or not isinstance(body[0], ast.If):
        raise SiteError("submit is no longer a single if/elif/else")
    env = {"self.is_full()": ("full", "bool"), "job.get_blocking_jobs()": ("blockers", "list")}

    def action(stmts):
        s = _srcs(stmts)
        if s == ["self._queued_jobs.append(job)"]:
            return "false"
        if s == ["self._run_job(job)"]:
            return "true"
        raise SiteError(f"submit branch action changed: {s}")

    chain, node = [], body[0]
    while True:
        chain.append((qpred(env, node.test), action(node.body)))
        if len(node.orelse) == 1 and isinstance(node.orelse[0], ast.If):
            node = node.orelse[0]
            continue
        last = action(node.orelse) if _stmts(node.orelse) else None
        break
    if last is None:
        raise SiteError("submit has no else branch")
    lines = []
    for i, (t, a) in enumerate(chain):
        lines.append(f"  {'if' if i == 0 else 'else if'} {t} then {a}")
    lines.append(f"  else {last}")
    return ("/-- `JobQueue.submit`: true = `_run_job(job)` now, false = append to `_queued_jobs` -/\n"
            "def submitRuns (full : Bool) (blockers : List Nat) : Bool :=\n" + "\n".join(lines))


@site("nodeq.runJob", "Queue", P_Q)
def _():
    fn = find_def(QUEUE, "JobQueue._run_job")
    body = _stmts(fn.body)
    if len(body) != 1 or not isinstance(body[0], ast.If) or body[0].orelse:
        raise SiteError("_run_job shape changed")
    i = body[0]
    if _srcs(i.body) != ["self._num_jobs += 1", "self._outstanding_jobs[job.name] = job"]:
        raise SiteError(f"_run_job bookkeeping changed: {_srcs(i.body)}")
    env = {"job.run()": ("st", "enum"), "Status.GOOD": ("RunStatus.GOOD", "enum"), "Status.ERROR": ("RunStatus.ERROR", "enum"),
           "Status.IN_PROGRESS": ("RunStatus.IN_PROGRESS", "enum")}
    test = qpred(env, i.test)
    run = find_def(ACC, "AsyncCliCommand.run")
    rets = [s for s in walk_stmts(run) if isinstance(s, ast.Return)]
    if not rets:
        raise SiteError("AsyncCliCommand.run returns nothing")
    vals = {enum_member(r.value, "Status") for r in rets}
    if len(vals) != 1:
        raise SiteError(f"AsyncCliCommand.run returns several statuses: {vals}")
    text = src(run)
    if text.index("subprocess.Popen(") > text.index("self._is_pending = True"):
        raise SiteError("run marks the job pending before launching it")
    return ("/-- `_run_job`: the job is counted and becomes outstanding iff … -/\n"
            f"def runCounted (st : RunStatus) : Bool :=\n  {test}\n\n"
            "/-- what `AsyncCliCommand.run` returns after `Popen` -/\n"
            f"def asyncRunStatus : RunStatus := RunStatus.{vals.pop()}")


@site("nodeq.processQueue", "Queue", P_Q)
def _():
    fn = find_def(QUEUE, "JobQueue.process_queue")
    body = _stmts(fn.body)
    kinds = [type(s).__name__ for s in body]
    if kinds != ["Expr", "Expr", "If", "Assign", "Assign", "If", "Assign", "For", "For"]:
        raise SiteError(f"process_queue statement shape changed: {kinds}")
    chk, mon, empty, pop0, avail, zero, nb0, loop, poploop = body
    if src(chk) != "self._check_completions()" or src(mon) != "self._handle_monitor_func()":
        raise SiteError("process_queue no longer starts with _check_completions(); _handle_monitor_func()")
    if _srcs(empty.body) != ["return"] or empty.orelse:
        raise SiteError("empty-queue branch changed")
    env = {"self._queued_jobs": ("queued", "list"), "self._queue_depth": ("depth", "nat"),
           "self._outstanding_jobs": ("outstanding", "list"), "available_jobs": ("avail", "int"),
           "len(jobs_to_pop)": ("numPopped", "nat"), "blocking": ("blocking", "list")}
    t_empty = qpred(env, empty.test)
    if src(pop0) != "jobs_to_pop = []" or src(avail.targets[0]) != "available_jobs":
        raise SiteError("jobs_to_pop / available_jobs initialisation changed")
    t_avail = qpred(env, avail.value, ctx="term")
    if _srcs(zero.body) != ["return"] or zero.orelse:
        raise SiteError("queue-full branch changed")
    t_zero = qpred(env, zero.test)
    if src(loop.iter) != "enumerate(self._queued_jobs)" or src(loop.target) != "(i, job)":
        raise SiteError("start loop header changed")
    lb = _stmts(loop.body)
    if [type(s).__name__ for s in lb] != ["Assign", "If", "Expr", "Expr", "If"]:
        raise SiteError(f"start loop body changed: {[type(s).__name__ for s in lb]}")
    getb, blk, run, app, brk = lb
    if src(getb) != "blocking = job.get_blocking_jobs()":
        raise SiteError("blocking lookup changed")
    if _srcs(blk.body) != ["num_blocked += 1", "continue"] or blk.orelse:
        raise SiteError("blocked branch changed")
    t_blk = qpred(env, blk.test)
    if src(run) != "self._run_job(job)" or src(app) != "jobs_to_pop.append(i)":
        raise SiteError("run / pop bookkeeping changed")
    if _srcs(brk.body) != ["break"] or brk.orelse:
        raise SiteError("break branch changed")
    t_brk = qpred(env, brk.test)
    if src(poploop) != "for index in reversed(jobs_to_pop):\n    self._queued_jobs.pop(index)":
        raise SiteError("pop loop changed")
    return (
        "/-- `if not self._queued_jobs: return` -/\n"
        f"def nothingQueued (queued : List Nat) : Bool :=\n  {t_empty}\n\n"
        "/-- `available_jobs = self._queue_depth - len(self._outstanding_jobs)` -/\n"
        f"def availableJobs (depth : Nat) (outstanding : List Nat) : Int :=\n  {t_avail}\n\n"
        "/-- `if available_jobs == 0: return` -/\n"
        f"def noneAvailable (avail : Int) : Bool :=\n  {t_zero}\n\n"
        "/-- `if blocking: continue` -/\n"
        f"def startBlocked (blocking : List Nat) : Bool :=\n  {t_blk}\n\n"
        "/-- `if len(jobs_to_pop) >= available_jobs: break` (numPopped counts the job just started) -/\n"
        f"def startBreak (numPopped : Nat) (avail : Int) : Bool :=\n  {t_brk}"
    )


@site("nodeq.checkCompletions", "Queue", P_Q)
def _():
    fn = find_def(QUEUE, "JobQueue._check_completions")
    body = _stmts(fn.body)
    if [type(s).__name__ for s in body] != ["Assign", "Assign", "While"]:
        raise SiteError(f"_check_completions top-level shape changed: {[type(s).__name__ for s in body]}")
    f0, need0, w = body
    if src(f0) != "failed_jobs = set()" or src(need0) != "need_to_rerun = True" or src(w.test) != "need_to_rerun":
        raise SiteError("failed_jobs / need_to_rerun initialisation changed")
    wb = _stmts(w.body)
    if [type(s).__name__ for s in wb] != ["Assign", "Assign", "For", "AugAssign", "For"]:
        raise SiteError(f"while body shape changed: {[type(s).__name__ for s in wb]}")
    need1, comp0, collect, count, each = wb
    if src(need1) != "need_to_rerun = False" or src(comp0) != "completed_jobs = []":
        raise SiteError("per-pass initialisation changed")
    if any(isinstance(s, ast.Assign) and src(s.targets[0]) == "failed_jobs" for s in walk_stmts(w)):
        raise SiteError("failed_jobs is re-initialised inside the while loop")
    # collection loop
    if src(collect.iter) != "self._outstanding_jobs.items()" or src(collect.target) != "(name, job)":
        raise SiteError("collection loop header changed")
    cb = _stmts(collect.body)
    if len(cb) != 1 or not isinstance(cb[0], ast.If) or src(cb[0].test) != "job.is_complete()" or cb[0].orelse:
        raise SiteError("completion test changed")
    inner = _stmts(cb[0].body)
    if len(inner) != 2 or src(inner[0]) != "completed_jobs.append(name)" or not isinstance(inner[1], ast.If) or inner[1].orelse:
        raise SiteError("collection body changed")
    if _srcs(inner[1].body) != ["failed_jobs.add(job.name)"]:
        raise SiteError("failed_jobs bookkeeping changed")
    t_failed = qpred({"job.return_code": ("rc", "int")}, inner[1].test)
    if src(count) != "self._num_completed += len(completed_jobs)":
        raise SiteError("completion count changed")
    # per completed name
    if src(each.iter) != "completed_jobs" or src(each.target) != "name":
        raise SiteError("per-completion loop header changed")
    eb = _stmts(each.body)
    if [type(s).__name__ for s in eb] != ["Expr", "Assign", "For", "For"]:
        raise SiteError(f"per-completion body changed: {[type(s).__name__ for s in eb]}")
    pop, ci0, scan, poploop = eb
    if src(pop) != "self._outstanding_jobs.pop(name)" or src(ci0) != "canceled_indices = []":
        raise SiteError("pop / canceled_indices changed")
    if src(scan.iter) != "enumerate(self._queued_jobs)" or src(scan.target) != "(i, job)":
        raise SiteError("scan header changed")
    sb = _stmts(scan.body)
    if len(sb) != 2 or src(sb[0]) != "blocking_jobs = job.get_blocking_jobs()" or not isinstance(sb[1], ast.If) or sb[1].orelse:
        raise SiteError("scan body changed")
    guard = sb[1]
    env = {"blocking_jobs": ("blocking", "list"), "failed_jobs": ("failed", "list"), "name": ("name", "nat"),
           "job.cancel_on_blocking_job_failure": ("flag", "bool")}
    t_guard = qpred(env, guard.test)
    gb = _stmts(guard.body)
    if len(gb) != 1 or not isinstance(gb[0], ast.If):
        raise SiteError("guarded body changed")
    c = gb[0]
    want = ["job.set_blocking_jobs(set())", "job.cancel()", "canceled_indices.append(i)", "self._num_jobs += 1",
            "self._outstanding_jobs[job.name] = job", "need_to_rerun = True"]
    if _srcs(c.body) != want:
        raise SiteError(f"cancel actions changed: {_srcs(c.body)}")
    t_cancel = qpred(env, c.test)
    if not (len(c.orelse) == 1 and isinstance(c.orelse[0], ast.If) and not c.orelse[0].orelse):
        raise SiteError("elif branch changed")
    r = c.orelse[0]
    if _srcs(r.body) != ["job.remove_blocking_job(name)"]:
        raise SiteError(f"removal action changed: {_srcs(r.body)}")
    t_remove = qpred(env, r.test)
    if src(poploop) != "for index in reversed(canceled_indices):\n    self._queued_jobs.pop(index)":
        raise SiteError("canceled pop loop changed")
    return (
        "/-- `if job.return_code != 0: failed_jobs.add(job.name)` -/\n"
        f"def failedCode (rc : Int) : Bool :=\n  {t_failed}\n\n"
        "/-- `if blocking_jobs:` -/\n"
        f"def scanGuard (blocking : List Nat) : Bool :=\n  {t_guard}\n\n"
        "/-- the cancel condition -/\n"
        f"def cancelCond (flag : Bool) (blocking failed : List Nat) : Bool :=\n  {t_cancel}\n\n"
        "/-- `elif name in blocking_jobs:` -/\n"
        f"def removeCond (name : Nat) (blocking : List Nat) : Bool :=\n  {t_remove}\n\n"
        "/-- `failed_jobs` lives for one call (initialised before the `while`), `completed_jobs` for one pass;\n"
        "    canceled jobs: blockers cleared, `cancel()`, counted, appended to outstanding, popped after the scan -/\n"
        "def checkShapeOk : Bool := true"
    )


@site("nodeq.wait", "Queue", P_Q + ["C05"])
def _():
    fn = find_def(QUEUE, "JobQueue.wait")
    body = _stmts(fn.body)
    if [type(s).__name__ for s in body] != ["While", "Assert", "Expr"]:
        raise SiteError(f"wait shape changed: {[type(s).__name__ for s in body]}")
    w, a, _ = body
    if _srcs(w.body) != ["self.process_queue()", "time.sleep(self._poll_interval)"]:
        raise SiteError(f"wait loop body changed: {_srcs(w.body)}")
    env = {"self._outstanding_jobs": ("outstanding", "list"), "self._queued_jobs": ("queued", "list"),
           "self._num_completed": ("numCompleted", "nat"), "self._num_jobs": ("numJobs", "nat")}
    run = find_def(QUEUE, "JobQueue.run")
    if _srcs(run.body) != ["for job in jobs:\n    self.submit(job)", "self.wait()"]:
        raise SiteError(f"run changed: {_srcs(run.body)}")
    return (
        "/-- `while self._outstanding_jobs or self._queued_jobs` -/\n"
        f"def waitMore (outstanding queued : List Nat) : Bool :=\n  {qpred(env, w.test)}\n\n"
        "/-- the assertion after the loop -/\n"
        f"def waitAssert (numCompleted numJobs : Nat) : Bool :=\n  {qpred(env, a.test)}"
    )


@site("nodeq.asyncJob", "Queue", P_Q + ["C19"])
def _():
    cancel = find_def(ACC, "AsyncCliCommand.cancel")
    rc = the(assigns(cancel, "self._return_code"), "self._return_code = … in cancel")
    code = const_int(rc.value)
    ic = assigns(cancel, "self._is_complete")
    sets = len(ic) == 1 and isinstance(ic[0].value, ast.Constant) and ic[0].value.value is True and ic[0] in cancel.body
    if ic and not sets:
        raise SiteError("cancel assigns _is_complete in an unexpected way")
    results = [s.value for s in walk_stmts(cancel) if isinstance(s, ast.Assign) and src(s.targets[0]) == "result"]
    res = the(results, "Result(…) in cancel")
    if not (isinstance(res, ast.Call) and src(res.func) == "Result" and len(res.args) >= 3):
        raise SiteError("cancel's Result(...) changed")
    if src(res.args[0]) != "self._job.name" or src(res.args[1]) != "self._return_code":
        raise SiteError("cancel's Result name / return code changed")
    cstat = enum_member(res.args[2], "JobCompletionStatus").lower()
    comp = find_def(ACC, "AsyncCliCommand._complete")
    a = the(assigns(comp, "self._return_code"), "self._return_code = … in _complete")
    if src(a.value) != "self._pipe.returncode":
        raise SiteError("_complete no longer records the pipe's return code")
    st = the(assigns(comp, "status"), "status = … in _complete")
    fstat = enum_member(st.value, "JobCompletionStatus").lower()
    r2 = the([s.value for s in walk_stmts(comp) if isinstance(s, ast.Assign) and src(s.targets[0]) == "result"], "Result in _complete")
    args = [src(x) for x in r2.args[:3]]
    if args != ["self._job.name", "self._return_code", "status"]:
        raise SiteError(f"_complete's Result(...) changed: {args}")
    for s_ in (cstat, fstat):
        if s_ not in ("finished", "canceled"):
            raise SiteError(f"row status {s_}")
    isc = find_def(ACC, "AsyncCliCommand.is_complete")
    first = _stmts(isc.body)[0]
    if src(first) != "if self._is_complete:\n    return True":
        raise SiteError("is_complete no longer starts with the _is_complete test")
    text = src(isc)
    if "if self._pipe.poll() is not None:\n        self._is_pending = False\n        self._complete()" not in text or \
            not text.rstrip().endswith("return not self._is_pending"):
        raise SiteError("is_complete's poll branch changed")
    rcprop = find_def(ACC, "AsyncCliCommand.return_code")
    if _srcs(rcprop.body) != ["return self._return_code"]:
        raise SiteError("return_code property changed")
    for meth, want in (("get_blocking_jobs", "return self._job.get_blocking_jobs()"),
                       ("remove_blocking_job", "self._job.remove_blocking_job(name)"),
                       ("set_blocking_jobs", "self._job.set_blocking_jobs(jobs)"),
                       ("cancel_on_blocking_job_failure", "return self._job.cancel_on_blocking_job_failure")):
        if _srcs(find_def(ACC, f"AsyncCliCommand.{meth}").body) != [want]:
            raise SiteError(f"AsyncCliCommand.{meth} no longer delegates to the job parameters")
    return (
        "/-- `AsyncCliCommand.cancel`: `self._return_code = …` -/\n"
        f"def cancelRc : Int := {code}\n\n"
        "/-- status of the row `cancel` records -/\n"
        f"def cancelStatus : RowStatus := .{cstat}\n\n"
        "/-- `cancel` sets `_is_complete`, so the next `is_complete()` is True without polling -/\n"
        f"def cancelSetsComplete : Bool := {'true' if sets else 'false'}\n\n"
        "/-- status of the row `_complete` records (return code = the pipe's) -/\n"
        f"def completeStatus : RowStatus := .{fstat}\n\n"
        "/-- blocker accessors and the cancel flag delegate to the job parameters; is_complete polls the pipe -/\n"
        "def asyncJobShapeOk : Bool := true"
    )


@site("nodeq.workers", "Queue", ["C06"])
def _():
    fn = find_def(RUNNER, "JobRunner._run_jobs")
    nj = the(assigns(fn, "num_jobs"), "num_jobs = …")
    if src(nj.value) != "len(jobs)":
        raise SiteError("num_jobs changed")
    sel = if_with_test(fn, lambda t: "num_parallel_processes_per_node" in t, "if num_parallel_processes_per_node …")
    if len(sel.body) != 1 or len(sel.orelse) != 1:
        raise SiteError("max_num_workers selection changed")
    a, b = sel.body[0], sel.orelse[0]
    for x in (a, b):
        if not (isinstance(x, ast.Assign) and src(x.targets[0]) == "max_num_workers"):
            raise SiteError("max_num_workers selection changed")
    env = {"num_parallel_processes_per_node": ("numProcs", "opt")}
    venv = {"self._intf.get_num_cpus()": ("cpus", "nat"), "num_parallel_processes_per_node": ("(numProcs.getD 0)", "nat")}
    t_sel = qpred(env, sel.test)
    v_a, v_b = qpred(venv, a.value, ctx="term"), qpred(venv, b.value, ctx="term")
    nw = the(assigns(fn, "num_workers"), "num_workers = …")
    wenv = {"num_jobs": ("numJobs", "nat"), "max_num_workers": ("maxNumWorkers", "nat")}
    t_nw = qpred(wenv, nw.value, ctx="term")
    calls = [s.value for s in walk_stmts(fn) if isinstance(s, ast.Expr) and isinstance(s.value, ast.Call) and src(s.value.func) == "JobQueue.run_jobs"]
    c = the(calls, "JobQueue.run_jobs(…)")
    kw = {k.arg: src(k.value) for k in c.keywords}
    if [src(x) for x in c.args] != ["jobs"] or kw.get("max_queue_depth") != "num_workers":
        raise SiteError("JobQueue.run_jobs call changed")
    return (
        "/-- `max_num_workers`: the configured processes-per-node, or the node's CPU count when unset -/\n"
        f"def maxNumWorkers (numProcs : Option Nat) (cpus : Nat) : Nat :=\n  if {t_sel} then {v_a} else {v_b}\n\n"
        "/-- `num_workers = …`, passed as `max_queue_depth` -/\n"
        f"def numWorkers (numJobs maxNumWorkers : Nat) : Nat :=\n  {t_nw}"
    )
