"""Translator sites for Gen/Replica.lean: which node of a multi-node allocation is the manager node, and where the
runner takes the manager flag and the lifecycle decisions from (C03, C16, C19 on allocations with `hpc.nodes >= 2`)."""
import ast
from exlib import *  # noqa

SLURM = "jade/hpc/slurm_manager.py"
RUNNER = "jade/jobs/job_runner.py"


@site("replica.amIManager", "Replica", ["C03", "C08", "C19"])
def _():
    fn = find_def(SLURM, "SlurmManager.am_i_manager")
    r = the([s for s in walk_stmts(fn) if isinstance(s, ast.Return)], "return").value
    if not (isinstance(r, ast.Compare) and len(r.ops) == 1 and isinstance(r.ops[0], ast.Eq)):
        raise SiteError(f"unexpected test {src(r)}")
    lhs, rhs = r.left, r.comparators[0]
    if not (isinstance(lhs, ast.Call) and src(lhs.func) == "os.environ.get" and len(lhs.args) == 2
            and isinstance(lhs.args[0], ast.Constant) and isinstance(rhs, ast.Constant) and isinstance(rhs.value, str)):
        raise SiteError(f"unexpected test {src(r)}")
    var, dflt, want = lhs.args[0].value, lhs.args[1], rhs.value
    if not isinstance(dflt, ast.Constant):
        raise SiteError(f"unexpected default {src(dflt)}")
    # the default is compared with a string: an int default (the code's `1`) is never equal to it
    dtext = f"({lstr(dflt.value)} == {lstr(want)})" if isinstance(dflt.value, str) else "false"
    return (f"/-- environment variable `SlurmManager.am_i_manager` reads -/\ndef managerVar : String := {lstr(var)}\n"
            f"/-- `SlurmManager.am_i_manager`: `{src(r)}` -/\n"
            f"def amIManager (nodeId : Option String) : Bool :=\n  match nodeId with\n  | some v => v == {lstr(want)}\n  | none => {dtext}")


@site("replica.nodeIdVar", "Replica", ["C03", "C16"])
def _():
    fn = find_def(SLURM, "SlurmManager.get_node_id")
    r = the([s for s in walk_stmts(fn) if isinstance(s, ast.Return)], "return").value
    if not (isinstance(r, ast.Subscript) and src(r.value) == "os.environ" and isinstance(r.slice, ast.Constant)):
        raise SiteError(f"unexpected node id {src(r)}")
    return f"/-- `SlurmManager.get_node_id`: the variable that names the node inside the allocation -/\ndef nodeIdVar : String := {lstr(r.slice.value)}"


@site("replica.runnerFlag", "Replica", ["C03", "C19"])
def _():
    """`JobRunner._generate_jobs` hands `self._intf.am_i_manager()` to every AsyncCliCommand as `is_manager_node`"""
    fn = find_def(RUNNER, "JobRunner._generate_jobs")
    calls = [c for c in ast.walk(fn) if isinstance(c, ast.Call) and src(c.func) == "AsyncCliCommand"]
    c = the(calls, "AsyncCliCommand(...)")
    args = [src(a) for a in c.args] + [f"{k.arg}={src(k.value)}" for k in c.keywords]
    flag = None
    if len(c.args) >= 5:
        flag = src(c.args[4])
    for k in c.keywords:
        if k.arg == "is_manager_node":
            flag = src(k.value)
    if flag is None:
        raise SiteError("no is_manager_node argument: " + ", ".join(args))
    return ("/-- the expression `JobRunner._generate_jobs` passes as `is_manager_node` -/\n"
            f"def runnerManagerFlag : String := {lstr(flag)}")


@site("replica.nodeHooksUnconditional", "Replica", ["C16"])
def _():
    """the node setup / node teardown statements of `JobRunner.run_jobs` are guarded by the configuration only — never by
    which node of the allocation this is"""
    fn = find_def(RUNNER, "JobRunner.run_jobs")
    tests = []
    for s in ast.walk(fn):
        if isinstance(s, ast.If) and ("node_setup" in src(s.test) or "node_teardown" in src(s.test) or "node_shutdown" in src(s.test)):
            tests.append(src(s.test))
    if len(tests) != 4:
        raise SiteError(f"expected 4 lifecycle guards in run_jobs, found {tests}")
    dep = [t for t in tests if "manager" in t or "node_id" in t or "NODEID" in t]
    return ("/-- guards of the node lifecycle statements of `JobRunner.run_jobs`, in source order -/\n"
            "def nodeHookGuards : List String := [" + ", ".join(lstr(t) for t in tests) + "]\n"
            "/-- none of them mentions the manager flag or the node id -/\n"
            f"def nodeHooksOnEveryNode : Bool := {'true' if not dep else 'false'}")
