"""Translator sites for Gen/Reports.lean (C20: events summary, resource statistics, result tallies)."""
import ast
import re
from exlib import *  # noqa

PREAMBLE["Reports"] = """set_option linter.unusedVariables false

/-- A structured event as far as the consolidation looks at it: the grouping key, the sort key
    and everything else (`source, category, message, event_class, data`) as an opaque payload. -/
structure Event (α : Type) where
  name : String
  timestamp : String
  payload : α
  deriving DecidableEq, Repr

/-- the three running summaries of one statistic (`maximum`, `minimum`, `sum`) -/
structure St (α : Type) where
  mx : α
  mn : α
  sm : α
  deriving DecidableEq, Repr

/-- the tallies of a results summary -/
inductive Cls where
  | successful | failed | canceled
  deriving DecidableEq, Repr
"""

EVENTS = "jade/events.py"
RESMON = "jade/resource_monitor.py"
RESULT = "jade/result.py"
SUBMIT = "jade/jobs/job_submitter.py"
ENUMS = "jade/enums.py"


# ------------------------------------------------------------------------------------------
# events
# ------------------------------------------------------------------------------------------
def _event_attr(node, var):
    """`x.timestamp` / `x.name` -> Lean field access on the Event structure."""
    if isinstance(node, ast.Attribute) and isinstance(node.value, ast.Name) and node.value.id == var \
            and node.attr in ("timestamp", "name"):
        return f"e.{node.attr}"
    raise SiteError(f"not a modelled event field: {src(node)}")


@site("events.sort", "Reports", ["C20"])
def _():
    fn = find_def(EVENTS, "EventsSummary._consolidate_events")
    loops = [s for s in fn.body if isinstance(s, ast.For)]
    the(loops, "top-level for", 2)
    lp = loops[1]
    if src(lp.target) != "name" or src(lp.iter) not in ("self._events.keys()", "self._events"):
        raise SiteError(f"sort loop header changed: for {src(lp.target)} in {src(lp.iter)}")
    if len(lp.body) != 1 or not isinstance(lp.body[0], ast.Expr) or not isinstance(lp.body[0].value, ast.Call):
        raise SiteError("sort loop body changed")
    c = lp.body[0].value
    if src(c.func) != "self._events[name].sort" or c.args:
        raise SiteError(f"not a plain list.sort: {src(c)}")
    kw = {k.arg: k.value for k in c.keywords}
    if set(kw) - {"key", "reverse"} or "key" not in kw:
        raise SiteError(f"sort keywords changed: {sorted(kw)}")
    rev = "false"
    if "reverse" in kw:
        r = kw["reverse"]
        if not (isinstance(r, ast.Constant) and isinstance(r.value, bool)):
            raise SiteError("reverse is not a literal")
        rev = "true" if r.value else "false"
    k = kw["key"]
    if not (isinstance(k, ast.Lambda) and len(k.args.args) == 1 and not k.args.defaults):
        raise SiteError(f"sort key is not a one-argument lambda: {src(k)}")
    key = _event_attr(k.body, k.args.args[0].arg)
    return (
        "/-- `key=` of the `.sort(...)` in `_consolidate_events` (Python's list.sort is stable) -/\n"
        f"def sortKey {{α : Type}} (e : Event α) : String := {key}\n\n"
        "/-- `reverse=` of that sort (absent = False) -/\n"
        f"def sortReverse : Bool := {rev}"
    )


@site("events.group", "Reports", ["C20"])
def _():
    """Shape of the reading loop: every line of every globbed file is deserialized and appended to
    the list of its name; nothing is skipped, nothing breaks out."""
    fn = find_def(EVENTS, "EventsSummary._consolidate_events")
    lp = [s for s in fn.body if isinstance(s, ast.For)][0]
    if src(lp.target) != "event_file" or src(lp.iter) != "self._iter_event_files()" or lp.orelse:
        raise SiteError("file loop header changed")
    if len(lp.body) != 1 or not isinstance(lp.body[0], ast.With):
        raise SiteError("file loop body changed")
    w = lp.body[0]
    if src(w.items[0].context_expr) != "open(event_file, 'r')" or len(w.body) != 1 or not isinstance(w.body[0], ast.For):
        raise SiteError("open/line loop changed")
    ll = w.body[0]
    if src(ll.target) != "line" or src(ll.iter) != src(w.items[0].optional_vars) or ll.orelse:
        raise SiteError("line loop header changed")
    body = [src(s) for s in ll.body]
    if body[:2] != ["record = json.loads(line)", "event = deserialize_event(record)"] or len(body) != 3:
        raise SiteError(f"line loop body changed: {body}")
    ap = ll.body[2]
    if not (isinstance(ap, ast.Expr) and isinstance(ap.value, ast.Call) and isinstance(ap.value.func, ast.Attribute)
            and ap.value.func.attr == "append" and src(ap.value.args[0]) == "event" and len(ap.value.args) == 1
            and isinstance(ap.value.func.value, ast.Subscript) and src(ap.value.func.value.value) == "self._events"):
        raise SiteError(f"append changed: {body[2]}")
    key = _event_attr(ap.value.func.value.slice, "event")
    for s in walk_stmts(fn):
        if isinstance(s, (ast.Break, ast.Continue, ast.Return, ast.Try, ast.If)):
            raise SiteError(f"control flow added to _consolidate_events: {type(s).__name__}")
    top = [type(s).__name__ for s in fn.body if not (isinstance(s, ast.Expr) and isinstance(s.value, ast.Constant))]
    if top != ["For", "For"]:
        raise SiteError(f"statement list changed: {top}")
    return (
        "/-- key of `self._events[…].append(event)` in `_consolidate_events` -/\n"
        f"def groupKey {{α : Type}} (e : Event α) : String := {key}\n\n"
        "/-- every line of every globbed file is appended (no skip, no break) -/\n"
        "def consolidateShapeOk : Bool := true"
    )


@site("events.glob", "Reports", ["C20"])
def _():
    fn = find_def(EVENTS, "EventsSummary._iter_event_files")
    r = the([s for s in fn.body if isinstance(s, ast.Return)], "return")
    c = r.value
    if not (isinstance(c, ast.Call) and src(c.func) == "Path(self._output_dir).glob" and len(c.args) == 1 and not c.keywords):
        raise SiteError(f"glob call changed: {src(c)}")
    return f"/-- `_iter_event_files` -/\ndef eventGlob : String := {lstr(const_str(c.args[0]))}"


@site("events.init", "Reports", ["C20"])
def _():
    fn = find_def(EVENTS, "EventsSummary.__init__")
    a = the(assigns(fn, "event_files"), "event_files = …")
    if src(a.value) != "list(self._event_dir.iterdir())":
        raise SiteError(f"event_files = {src(a.value)}")
    i = the([s for s in fn.body if isinstance(s, ast.If)], "if")
    if src(i.test) != "not event_files":
        raise SiteError(f"guard changed: {src(i.test)}")
    if [src(s) for s in i.body] != ["self._consolidate_events()", "self._save_events_summary()"]:
        raise SiteError("consolidate/save sequence changed")
    if not (len(i.orelse) == 1 and isinstance(i.orelse[0], ast.If) and src(i.orelse[0].test) == "preload"
            and [src(s) for s in i.orelse[0].body] == ["self._load_all_events()"] and not i.orelse[0].orelse):
        raise SiteError("preload branch changed")
    return (
        "/-- `EventsSummary.__init__`: consolidate + save iff `events/` is empty; otherwise only load -/\n"
        "def consolidateIffEmpty : Bool := true"
    )


@site("events.save", "Reports", ["C20"])
def _():
    rs = class_assign(EVENTS, "EventsSummary", "RESOURCE_STATS")
    if not (isinstance(rs, ast.Call) and src(rs.func) == "set" and len(rs.args) == 1 and isinstance(rs.args[0], ast.Tuple)):
        raise SiteError("RESOURCE_STATS changed shape")
    consts = {}
    for st in module(EVENTS).body:
        if isinstance(st, ast.Assign) and len(st.targets) == 1 and isinstance(st.targets[0], ast.Name) \
                and isinstance(st.value, ast.Constant) and isinstance(st.value.value, str):
            consts[st.targets[0].id] = st.value.value
    names = []
    for e in rs.args[0].elts:
        if not (isinstance(e, ast.Name) and e.id in consts):
            raise SiteError(f"RESOURCE_STATS member {src(e)}")
        names.append(consts[e.id])
    fn = find_def(EVENTS, "EventsSummary._save_events_summary")
    lp = [s for s in fn.body if isinstance(s, ast.For)]
    the(lp, "for", 2)
    if src(lp[0].target) != "(name, events)" or src(lp[0].iter) != "self._events.items()":
        raise SiteError("save loop header changed")
    i = the([s for s in lp[0].body if isinstance(s, ast.If)], "if name in RESOURCE_STATS")
    if src(i.test) != "name in self.RESOURCE_STATS":
        raise SiteError("save test changed")
    if [src(s) for s in i.orelse] != ["dict_events = [event.to_dict() for event in events]",
                                     "filename = self._make_event_filename(name)",
                                     "dump_data(dict_events, filename)"]:
        raise SiteError("JSON save branch changed")
    if src(lp[1]) != "for name in self.RESOURCE_STATS:\n    self._events.pop(name, None)":
        raise SiteError("resource-stat pop changed")
    ld = find_def(EVENTS, "EventsSummary._deserialize_events")
    if [src(s) for s in ld.body] != ["self._events[name] = [deserialize_event(x) for x in load_data(path)]"]:
        raise SiteError("_deserialize_events changed")
    la = find_def(EVENTS, "EventsSummary._load_all_events")
    if "for filename in self._event_dir.iterdir():\n        name = filename.stem\n        if name not in self._events and name not in self.RESOURCE_STATS:\n            self._deserialize_events(name, filename)" not in src(la):
        raise SiteError("_load_all_events changed")
    td = find_def(EVENTS, "StructuredLogEvent.to_dict")
    if [src(s) for s in td.body if not isinstance(s, ast.Expr)] != ["return self.__dict__"]:
        raise SiteError("to_dict changed")
    return (
        "/-- names saved as Parquet tables, not as `events/<name>.json` (outside the model) -/\n"
        "def resourceStats : List String := " + llist([lstr(n) for n in names]) + "\n\n"
        "/-- every other name: the whole list is dumped to `events/<name>.json` and read back in order -/\n"
        "def saveLoadShapeOk : Bool := true"
    )


# ------------------------------------------------------------------------------------------
# statistics: if/elif chains -> nested if-then-else over the state record
# ------------------------------------------------------------------------------------------
FIELDS = {"maximum": "mx", "minimum": "mn", "sum": "sm"}


def _stat_target(node, base, idx):
    """`self._summaries['maximum'][resource_type][stat_name]` -> 'mx'"""
    m = re.fullmatch(re.escape(base) + r"\['(\w+)'\]" + re.escape(idx), src(node))
    if not m or m.group(1) not in FIELDS:
        raise SiteError(f"not a summary cell: {src(node)}")
    return FIELDS[m.group(1)]


class _Blk:
    """Compile a block of assignments / if-elif chains over the summary cells of ONE statistic into a Lean
    term: each statement becomes a `let sK := …` on the state record, each `if`/`elif`/`else` a nested
    `if … then … else …` (so `elif` vs. a second `if`, and every comparison, are visible in the term)."""

    def __init__(self, base, idx):
        self.base, self.idx, self.n = base, idx, 0

    def env(self, s):
        e = {"val": ("val", "int")}
        for k, f in FIELDS.items():
            e[f"{self.base}['{k}']{self.idx}"] = (f"{s}.{f}", "int")
        return e

    def fresh(self):
        self.n += 1
        return f"s{self.n}"

    def block(self, stmts, s, ind):
        """returns Lean term (multi-line) for running stmts from state variable s"""
        lines = []
        cur = s
        for st in stmts:
            nxt = self.fresh()
            lines.append(f"{ind}let {nxt} := {self.stmt(st, cur, ind)}")
            cur = nxt
        lines.append(f"{ind}{cur}")
        return "\n".join(lines)

    def operand(self, node, s):
        """right-hand sides are `val` or another cell (the terms are generic in the number type: no literals)"""
        e = self.env(s)
        if src(node) not in e:
            raise SiteError(f"unexpected operand {src(node)}")
        return e[src(node)][0]

    def stmt(self, st, s, ind):
        if isinstance(st, ast.Assign) and len(st.targets) == 1:
            f = _stat_target(st.targets[0], self.base, self.idx)
            return f"{{ {s} with {f} := {self.operand(st.value, s)} }}"
        if isinstance(st, ast.AugAssign) and isinstance(st.op, ast.Add):
            f = _stat_target(st.target, self.base, self.idx)
            return f"{{ {s} with {f} := {s}.{f} + {self.operand(st.value, s)} }}"
        if isinstance(st, ast.If):
            t = self.cmp(st.test, s)
            a = self.block(st.body, s, ind + "    ")
            b = self.block(st.orelse, s, ind + "    ") if st.orelse else f"{ind}    {s}"
            return f"\n{ind}  if {t} then (\n{a})\n{ind}  else (\n{b})"
        raise SiteError(f"untranslatable statement: {src(st)}")

    def cmp(self, node, s):
        """comparison of two cells/`val` -> Prop-valued Lean comparison (decidable for any decidable order)"""
        if not (isinstance(node, ast.Compare) and len(node.ops) == 1):
            raise SiteError(f"not a simple comparison: {src(node)}")
        sym = {ast.Lt: "<", ast.LtE: "≤", ast.Gt: ">", ast.GtE: "≥"}
        if type(node.ops[0]) not in sym:
            raise SiteError(f"comparison operator: {src(node)}")
        e = self.env(s)
        a, b = src(node.left), src(node.comparators[0])
        if a not in e or b not in e:
            raise SiteError(f"comparison operands: {src(node)}")
        return f"{e[a][0]} {sym[type(node.ops[0])]} {e[b][0]}"


def _stat_loop(stmts, what):
    """the `for stat_name, val in stat_dict.items():` among stmts"""
    lp = the([s for s in stmts if isinstance(s, ast.For)], what)
    if src(lp.target) != "(stat_name, val)" or src(lp.iter) != "stat_dict.items()" or lp.orelse:
        raise SiteError(f"{what}: header changed")
    return lp


HDR = "{α : Type} [LT α] [LE α] [DecidableLT α] [DecidableLE α] [Add α]"


@site("stats.sysUpdate", "Reports", ["C20"])
def _():
    fn = find_def(RESMON, "ResourceMonitorAggregator.update_resource_stats")
    outer = [s for s in fn.body if isinstance(s, ast.For)]
    o = the(outer, "for resource_type, stat_dict in cur_stats.items()")
    if src(o.target) != "(resource_type, stat_dict)" or src(o.iter) != "cur_stats.items()":
        raise SiteError("system loop header changed")
    if src(fn.body[[isinstance(s, ast.For) for s in fn.body].index(True) - 1]) != "cur_stats = self._get_stats()":
        raise SiteError("cur_stats source changed")
    if len(o.body) != 1:
        raise SiteError("system loop body changed")
    lp = _stat_loop(o.body, "system stat loop")
    b = _Blk("self._summaries", "[resource_type][stat_name]")
    body = b.block(lp.body, "s", "  ")
    cnt = [src(s) for s in fn.body if isinstance(s, ast.AugAssign)]
    if cnt != ["self._count += 1"]:
        raise SiteError(f"sample counter changed: {cnt}")
    return (
        "/-- one sample `val` of one system statistic in `update_resource_stats` -/\n"
        f"def sysUpdate {HDR} (s : St α) (val : α) : St α :=\n{body}"
    )


@site("stats.procUpdate", "Reports", ["C20"])
def _():
    fn = find_def(RESMON, "ResourceMonitorAggregator.update_resource_stats")
    g = the([s for s in fn.body if isinstance(s, ast.If)], "if self._stats.process")
    if src(g.test) != "self._stats.process":
        raise SiteError("process guard changed")
    if src(g.body[0]) != "cur_process_stats = self._get_process_stats(ids)" or len(g.body) != 2:
        raise SiteError("process stats source changed")
    o = g.body[1]
    if not (isinstance(o, ast.For) and src(o.target) == "(process_name, stat_dict)" and src(o.iter) == "cur_process_stats.items()"):
        raise SiteError("process loop header changed")
    i = the(o.body, "if process_name in …")
    if not (isinstance(i, ast.If) and src(i.test) == "process_name in self._process_summaries['maximum']"):
        raise SiteError("first-sample test changed")
    b = _Blk("self._process_summaries", "[process_name][stat_name]")
    upd = b.block(_stat_loop(i.body, "process update loop").body, "s", "  ")
    if [src(s) for s in i.body if not isinstance(s, ast.For)] != ["self._process_sample_count[process_name] += 1"]:
        raise SiteError("process sample counter changed")
    b2 = _Blk("self._process_summaries", "[process_name][stat_name]")
    first_stmts = _stat_loop(i.orelse, "process first-sample loop").body
    tg = sorted(_stat_target(s.targets[0], b2.base, b2.idx) for s in first_stmts if isinstance(s, ast.Assign))
    if tg != ["mn", "mx", "sm"] or len(first_stmts) != 3:
        raise SiteError("first-sample assignments changed")
    vals = {}
    for s in first_stmts:
        vals[_stat_target(s.targets[0], b2.base, b2.idx)] = b2.operand(s.value, "s")
    for f, v in vals.items():
        if v != "val":
            raise SiteError(f"first sample initialises {f} with {v}, not with the sample")
    if [src(s) for s in i.orelse if not isinstance(s, ast.For)] != ["self._process_sample_count[process_name] = 1"]:
        raise SiteError("first-sample counter changed")
    return (
        "/-- a later sample `val` of one statistic of one process -/\n"
        f"def procUpdate {HDR} (s : St α) (val : α) : St α :=\n{upd}\n\n"
        "/-- the first sample of a process (sample count := 1) -/\n"
        f"def procFirst {{α : Type}} (val : α) : St α :=\n  {{ mx := {vals['mx']}, mn := {vals['mn']}, sm := {vals['sm']} }}"
    )


def _init_value(node):
    if isinstance(node, ast.Constant) and isinstance(node.value, (int, float)) and not isinstance(node.value, bool) and node.value == 0:
        return "zero"
    if src(node) == "sys.maxsize":
        return "maxsize"
    raise SiteError(f"initial value {src(node)}")


@site("stats.init", "Reports", ["C20"])
def _():
    fn = find_def(RESMON, "ResourceMonitorAggregator.__init__")
    vals = {}
    for k in ("average", "maximum", "minimum", "sum"):
        a = the(assigns(fn, f"self._summaries['{k}'][resource_type][stat_name]"), f"initial {k}")
        vals[k] = _init_value(a.value)
    c = the(assigns(fn, "self._count"), "self._count = 0")
    if src(c.value) != "0":
        raise SiteError("initial count changed")
    return (
        "/-- initial summaries in `ResourceMonitorAggregator.__init__` (`zero` = 0.0, `maxsize` = sys.maxsize) -/\n"
        f"def sysInit {{α : Type}} (zero maxsize : α) : St α :=\n"
        f"  {{ mx := {vals['maximum']}, mn := {vals['minimum']}, sm := {vals['sum']} }}\n\n"
        f"def sysInitAverage {{α : Type}} (zero maxsize : α) : α := {vals['average']}"
    )


def _division(node, env):
    """`a / b` -> (numerator term, denominator term) over Int"""
    if not (isinstance(node, ast.BinOp) and isinstance(node.op, ast.Div)):
        raise SiteError(f"not a division: {src(node)}")
    t = Tr(env)
    return t.num(node.left, True), t.num(node.right, True)


@site("stats.finalize", "Reports", ["C20"])
def _():
    fn = find_def(RESMON, "ResourceMonitorAggregator.finalize")
    g = fn.body[1] if isinstance(fn.body[0], ast.Expr) else fn.body[0]
    if not (isinstance(g, ast.If) and src(g.test) == "self._count == 0" and isinstance(g.body[-1], ast.Return)):
        raise SiteError("zero-sample guard changed")
    a = the(assigns(fn, "self._summaries['average'][resource_type][stat_name]"), "system average")
    n1, d1 = _division(a.value, {"val": ("sm", "int"), "self._count": ("count", "nat")})
    lp = [s for s in fn.body if isinstance(s, ast.For) and src(s.iter) == "self._summaries['sum'].items()"]
    inner = _stat_loop(the(lp, "system average loop").body, "system average inner loop")
    if inner.body != [a]:
        raise SiteError("system average loop body changed")
    p = the(assigns(fn, "self._process_summaries['average'][process_name][stat_name]"), "process average")
    n2, d2 = _division(p.value, {"val": ("sm", "int"), "self._process_sample_count[process_name]": ("count", "nat")})
    return (
        "/-- `finalize`: average = numerator / denominator (kept as a fraction; the code divides floats) -/\n"
        f"def sysMeanNum (sm : Int) (count : Nat) : Int := {n1}\n"
        f"def sysMeanDen (sm : Int) (count : Nat) : Int := {d1}\n"
        f"def procMeanNum (sm : Int) (count : Nat) : Int := {n2}\n"
        f"def procMeanDen (sm : Int) (count : Nat) : Int := {d2}\n\n"
        "/-- nothing is written when no sample was taken -/\n"
        "def finalizeSkipsZero : Bool := true"
    )


# ------------------------------------------------------------------------------------------
# tallies
# ------------------------------------------------------------------------------------------
def _status_values():
    c = find_def(ENUMS, "JobCompletionStatus")
    out = {}
    for st in c.body:
        if isinstance(st, ast.Assign) and len(st.targets) == 1 and isinstance(st.targets[0], ast.Name):
            out[st.targets[0].id] = const_str(st.value)
    return out


@site("tally.statusValues", "Reports", ["C20"])
def _():
    v = _status_values()
    for k in ("FINISHED", "CANCELED", "MISSING"):
        if k not in v:
            raise SiteError(f"JobCompletionStatus.{k} missing")
    n = find_def(RESULT, "Result.__new__")
    if "if isinstance(status, JobCompletionStatus):\n        status = status.value" not in src(n):
        raise SiteError("Result.__new__ no longer stores status.value")
    return (
        "/-- `JobCompletionStatus` values (what `Result.status` holds) -/\n"
        f"def statusFinished : String := {lstr(v['FINISHED'])}\n"
        f"def statusCanceled : String := {lstr(v['CANCELED'])}\n"
        f"def statusMissing : String := {lstr(v['MISSING'])}"
    )


def _is_pred(name):
    fn = find_def(RESULT, f"Result.{name}")
    r = the([s for s in fn.body if isinstance(s, ast.Return)], "return")
    env = {"self.return_code": ("rc", "int"), "self.status": ("status", "str")}
    for k, v in _status_values().items():
        env[f"JobCompletionStatus.{k}.value"] = (lstr(v), "str")
    return pred(env, r.value)


@site("tally.predicates", "Reports", ["C20", "C03", "C04"])
def _():
    out = []
    for py, ln in (("is_successful", "isSuccessful"), ("is_failed", "isFailed"), ("is_canceled", "isCanceled")):
        out.append(f"/-- `Result.{py}` -/\ndef {ln} (rc : Int) (status : String) : Bool :=\n  {_is_pred(py)}")
    return "\n\n".join(out)


PRED = {"result.is_successful()": "isSuccessful rc status", "result.is_failed()": "isFailed rc status",
        "result.is_canceled()": "isCanceled rc status"}


def _chain(node, leaf, else_leaf, ind="  "):
    """if/elif/else chain over `result.is_*()` -> nested Lean if; `leaf(body)` gives the term of a branch"""
    if src(node.test) not in PRED:
        raise SiteError(f"unexpected test {src(node.test)}")
    t = PRED[src(node.test)]
    a = leaf(node.body)
    if len(node.orelse) == 1 and isinstance(node.orelse[0], ast.If):
        b = "\n" + _chain(node.orelse[0], leaf, else_leaf, ind + "  ")
        return f"{ind}if {t} then {a}\n{ind}else{b}"
    b = else_leaf(node.orelse)
    return f"{ind}if {t} then {a}\n{ind}else {b}"


def _count_leaf(body):
    if len(body) != 1 or not isinstance(body[0], ast.AugAssign) or src(body[0].value) != "1" or not isinstance(body[0].op, ast.Add):
        raise SiteError(f"branch body changed: {[src(s) for s in body]}")
    m = re.fullmatch(r"num_(successful|failed|canceled)", src(body[0].target))
    if not m:
        raise SiteError(f"counter {src(body[0].target)}")
    return f".ok .{m.group(1)}"


def _count_else(body):
    if not body:
        raise SiteError("no else branch")
    if isinstance(body[0], ast.Assert):
        if src(body[0].test) not in PRED:
            raise SiteError(f"assert {src(body[0].test)}")
        return f"(if {PRED[src(body[0].test)]} then {_count_leaf(body[1:])} else .error .assertion)"
    return _count_leaf(body)


def _counting_chain(fn, what):
    lp = [s for s in walk_stmts(fn) if isinstance(s, ast.For) and src(s.target) == "result"]
    lp = the(lp, f"{what}: for result in …")
    i = [s for s in lp.body if isinstance(s, ast.If) and src(s.test) in PRED]
    return lp, the(i, f"{what}: classification chain")


@site("tally.build", "Reports", ["C20", "C03"])
def _():
    fn = find_def(SUBMIT, "JobSubmitter._build_results")
    lp, ch = _counting_chain(fn, "_build_results")
    if src(lp.iter) != "self._results" or lp.body != [ch]:
        raise SiteError("_build_results loop changed")
    body = _chain(ch, _count_leaf, _count_else)
    r = the([s for s in fn.body if isinstance(s, ast.Return)], "return").value
    if not isinstance(r, ast.Dict):
        raise SiteError("return is not a dict literal")
    d = {const_str(k): v for k, v in zip(r.keys, r.values)}
    if src(d.get("results")) != "serialize_results(self._results)" or not isinstance(d.get("summary"), ast.Dict):
        raise SiteError("returned dict changed")
    sm = {const_str(k): src(v) for k, v in zip(d["summary"].keys, d["summary"].values)}
    if sm != {"num_successful": "num_successful", "num_failed": "num_failed", "num_canceled": "num_canceled",
              "num_missing": "len(missing_jobs)"}:
        raise SiteError(f"summary dict changed: {sm}")
    inits = {src(s.targets[0]): src(s.value) for s in fn.body if isinstance(s, ast.Assign)}
    if inits != {"num_successful": "0", "num_failed": "0", "num_canceled": "0"}:
        raise SiteError(f"counter initialisation changed: {inits}")
    return (
        "/-- the if/elif/else chain of `JobSubmitter._build_results` for one result row -/\n"
        f"def buildClassify (rc : Int) (status : String) : Except Jade.Err Cls :=\n{body}"
    )


@site("tally.show", "Reports", ["C20"])
def _():
    fn = find_def(RESULT, "ResultsSummary.show_results")
    lp, ch = _counting_chain(fn, "show_results")
    if src(lp.iter) != "self._results['results'].values()" or lp.body[0] is not ch:
        raise SiteError("show_results loop changed")
    body = _chain(ch, _count_leaf, _count_else)
    nm = the(assigns(fn, "num_missing"), "num_missing")
    tot = the(assigns(fn, "total"), "total")
    if src(nm.value) != "len(self._missing_jobs)" or src(tot.value) != "num_successful + num_failed + num_canceled + num_missing":
        raise SiteError("totals changed")
    asr = the([s for s in fn.body if isinstance(s, ast.Assert)], "assert total")
    if src(asr.test) != "total == len(self._results['results']) + num_missing":
        raise SiteError("total assertion changed")
    return (
        "/-- the if/elif/else chain of `ResultsSummary.show_results` for one result row -/\n"
        f"def showClassify (rc : Int) (status : String) : Except Jade.Err Cls :=\n{body}"
    )


@site("tally.byType", "Reports", ["C20"])
def _():
    fn = find_def(RESULT, "ResultsSummary.get_results_by_type")
    lp, ch = _counting_chain(fn, "get_results_by_type")
    if src(lp.iter) != "self._results['results'].values()" or lp.body != [ch]:
        raise SiteError("get_results_by_type loop changed")

    def leaf(body):
        if len(body) != 1:
            raise SiteError("branch body changed")
        m = re.fullmatch(r"(successful|failed|canceled)\.append\(result\)", src(body[0]))
        if not m:
            raise SiteError(f"branch body {src(body[0])}")
        return f"some .{m.group(1)}"

    def els(body):
        if body:
            raise SiteError("unexpected else branch")
        return "none"
    body = _chain(ch, leaf, els)
    r = the([s for s in fn.body if isinstance(s, ast.Return)], "return").value
    if src(r) != "{'successful': successful, 'failed': failed, 'canceled': canceled}":
        raise SiteError("returned dict changed")
    return (
        "/-- the if/elif chain of `ResultsSummary.get_results_by_type` (no else: an unclassifiable row is dropped) -/\n"
        f"def typeClassify (rc : Int) (status : String) : Option Cls :=\n{body}"
    )


@site("tally.missing", "Reports", ["C20", "C03", "C12"])
def _():
    fn = find_def(SUBMIT, "JobSubmitter._handle_completion")
    a = the(assigns(fn, "self._results"), "self._results = …")
    if src(a.value) != "ResultsAggregator.list_results(self._output)":
        raise SiteError("result source changed")
    i = fn.body[[s is a for s in fn.body].index(True) + 1]
    if not isinstance(i, ast.If):
        raise SiteError("no guard after reading the results")
    g = pred({"len(self._results)": ("numResults", "nat"), "self._config.get_num_jobs()": ("numJobs", "nat")}, i.test)
    need = ["finished_jobs = {x.name for x in self._results}", "all_jobs = {x.name for x in self._config.iter_jobs()}",
            "missing_jobs = sorted(all_jobs.difference(finished_jobs))"]
    have = [src(s) for s in i.body]
    if have[:3] != need:
        raise SiteError(f"missing-job computation changed: {have[:3]}")
    if [src(s) for s in i.orelse] != ["missing_jobs = []"]:
        raise SiteError("else branch changed")
    w = [src(s) for s in fn.body if isinstance(s, ast.Expr) and "write_results_summary" in src(s)]
    if w != ["self.write_results_summary(RESULTS_FILE, missing_jobs)"]:
        raise SiteError("write_results_summary call changed")
    return (
        "/-- `_handle_completion`: the missing jobs are computed only when this holds (else `[]`) -/\n"
        f"def missingGuard (numResults numJobs : Nat) : Bool :=\n  {g}"
    )
