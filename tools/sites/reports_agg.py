"""Translator sites for Gen/ReportsAgg.lean (C20: per-job events.log -> node event file -> consolidation).

What is read from the source:
  * `JobRunner._aggregate_events` (jade/jobs/job_runner.py): open mode of the node's event file, the loop over
    `self._config.iter_jobs()`, what happens to a job without events.log (`continue` / `break`), that every line is
    copied, whether `os.remove(job_file)` follows the copy, the basename of the per-job file;
  * `JobRunner.__init__`: the name of the node's event file;
  * `jade/cli/run.py`: basename and open mode of the per-job event file of a job process;
  * `jade/cli/run_jobs.py`: open mode of the node's event file in the `run-jobs` process;
  * `jade/cli/submit_jobs.py`, `try_submit_jobs.py`, `resubmit_jobs.py`: name and open mode of the submitter's event file.
A dropped `os.remove`, a `break` instead of `continue` or another open mode are TRANSLATED (the generated constant
changes, the theorems about it no longer build); only an unreadable shape is a SiteError (stale site).
"""
import ast
from exlib import *  # noqa

PREAMBLE["ReportsAgg"] = """/-- what the aggregation loop does with a configured job that has no per-job event file -/
inductive OnMissing where
  | skip   -- `continue`: go on with the next job
  | stop   -- `break` / `return`: the remaining jobs are not looked at
  deriving DecidableEq, Repr
"""

RUNNER = "jade/jobs/job_runner.py"
RUN = "jade/cli/run.py"
RUN_JOBS = "jade/cli/run_jobs.py"
LOGGERS = "jade/loggers.py"
SUBMITTERS = ["jade/cli/submit_jobs.py", "jade/cli/try_submit_jobs.py", "jade/cli/resubmit_jobs.py"]


def _lbool(b):
    return "true" if b else "false"


def _is_append(mode, what):
    """Python open()/FileHandler mode -> does it keep the present content?"""
    if not isinstance(mode, str) or not mode or mode[0] not in "rwxa" or set(mode[1:]) - set("+bt"):
        raise SiteError(f"{what}: unknown open mode {mode!r}")
    if mode[0] == "r":
        raise SiteError(f"{what}: read mode {mode!r} on a file that is written")
    return mode[0] == "a"


def _default_event_mode():
    """default of `mode` in `jade.loggers.setup_event_logging`, and that it reaches the FileHandler"""
    fn = find_def(LOGGERS, "setup_event_logging")
    names = [a.arg for a in fn.args.args]
    if names[:2] != ["filename", "mode"] or len(fn.args.defaults) != 1:
        raise SiteError(f"setup_event_logging signature changed: {names}")
    cfg = the(assigns(fn, "log_config"), "log_config = …").value
    text = src(cfg)
    if "'filename': filename" not in text or "'mode': mode" not in text or "'class': 'logging.FileHandler'" not in text:
        raise SiteError("setup_event_logging no longer hands filename/mode to a logging.FileHandler")
    return const_str(fn.args.defaults[0])


def _event_logging_call(fn, what):
    """the one `setup_event_logging(<file expr>, mode=…)` call of a CLI function -> (file expr node, appends?)"""
    calls = [s.value for s in walk_stmts(fn) if isinstance(s, ast.Expr) and isinstance(s.value, ast.Call)
             and src(s.value.func) == "setup_event_logging"]
    c = the(calls, f"{what}: setup_event_logging(…)")
    kw = {k.arg: k.value for k in c.keywords}
    if set(kw) - {"mode", "filename"} or len(c.args) > 2 or (len(c.args) == 2 and "mode" in kw):
        raise SiteError(f"{what}: unexpected arguments {src(c)}")
    fname = c.args[0] if c.args else kw.get("filename")
    if fname is None:
        raise SiteError(f"{what}: no file name in {src(c)}")
    if len(c.args) == 2:
        mode = const_str(c.args[1])
    elif "mode" in kw:
        mode = const_str(kw["mode"])
    else:
        mode = _default_event_mode()
    _default_event_mode()  # shape check of setup_event_logging itself
    return fname, _is_append(mode, what)


def _join_parts(node, what):
    """`os.path.join(a, b, …)` -> argument nodes"""
    if not (isinstance(node, ast.Call) and src(node.func) == "os.path.join" and not node.keywords and len(node.args) >= 2):
        raise SiteError(f"{what}: not an os.path.join: {src(node)}")
    return node.args


def _not_logging(stmts):
    """statements without docstrings and `logger.<level>(…)` calls (no effect on files)"""
    out = []
    for s in stmts:
        if isinstance(s, ast.Expr) and isinstance(s.value, ast.Constant):
            continue
        if isinstance(s, ast.Expr) and isinstance(s.value, ast.Call) and isinstance(s.value.func, ast.Attribute) \
                and src(s.value.func.value) == "logger" and s.value.func.attr in ("debug", "info", "warning", "error", "exception"):
            continue
        out.append(s)
    return out


def _open_call(item, what):
    """with-item `open(<file>[, mode]) as <var>` -> (file text, mode, var)"""
    c = item.context_expr
    if not (isinstance(c, ast.Call) and src(c.func) == "open" and 1 <= len(c.args) <= 2 and isinstance(item.optional_vars, ast.Name)):
        raise SiteError(f"{what}: not a plain open(…) as f: {src(c)}")
    kw = {k.arg: k.value for k in c.keywords}
    if set(kw) - {"mode", "encoding"} or (len(c.args) == 2 and "mode" in kw):
        raise SiteError(f"{what}: unexpected arguments {src(c)}")
    mode = const_str(c.args[1]) if len(c.args) == 2 else (const_str(kw["mode"]) if "mode" in kw else "r")
    return src(c.args[0]), mode, item.optional_vars.id


@site("agg.loop", "ReportsAgg", ["C20"])
def _():
    fn = find_def(RUNNER, "JobRunner._aggregate_events")
    body = _not_logging(fn.body)
    # `close_event_logging()` only closes this process's handler: all writers append, no effect on the content
    body = [s for s in body if src(s) != "close_event_logging()"]
    w = the(body, "statement besides close_event_logging(): with open(node file)")
    if not isinstance(w, ast.With) or len(w.items) != 1:
        raise SiteError("_aggregate_events is no longer one `with open(…)` block")
    nfile, nmode, fout = _open_call(w.items[0], "node file")
    if nfile != "self._event_filename":
        raise SiteError(f"the aggregation writes to {nfile}, not to self._event_filename")
    if nmode[0] == "r":
        raise SiteError(f"node file opened with mode {nmode!r}")
    node_appends = _is_append(nmode, "node file")
    lp = the(_not_logging(w.body), "statement in the with block: for job in …")
    if not (isinstance(lp, ast.For) and src(lp.target) == "job" and src(lp.iter) == "self._config.iter_jobs()" and not lp.orelse):
        raise SiteError("job loop header changed")
    st = _not_logging(lp.body)
    if len(st) < 3:
        raise SiteError(f"job loop body changed: {[src(s) for s in st]}")
    # 1. job_file = os.path.join(self._output, JOBS_OUTPUT_DIR, job.name, "events.log")
    a = st[0]
    if not (isinstance(a, ast.Assign) and len(a.targets) == 1 and src(a.targets[0]) == "job_file"):
        raise SiteError(f"first statement of the job loop: {src(a)}")
    parts = _join_parts(a.value, "job_file")
    if [src(p) for p in parts[:-1]] != ["self._output", "JOBS_OUTPUT_DIR", "job.name"]:
        raise SiteError(f"job_file = {src(a.value)}")
    jfile = const_str(parts[-1])
    # 2. if not os.path.exists(job_file): continue
    g = st[1]
    if not (isinstance(g, ast.If) and src(g.test) == "not os.path.exists(job_file)" and not g.orelse):
        raise SiteError(f"missing-file guard changed: {src(g)[:80]}")
    gb = _not_logging(g.body)
    if len(gb) != 1:
        raise SiteError("missing-file guard body changed")
    if isinstance(gb[0], ast.Continue):
        on_missing = ".skip"
    elif isinstance(gb[0], (ast.Break, ast.Return)) and getattr(gb[0], "value", None) is None:
        on_missing = ".stop"
    else:
        raise SiteError(f"missing-file guard does {src(gb[0])}")
    # 3. with open(job_file) as f_in: for line in f_in: f_out.write(line)
    c = st[2]
    if not (isinstance(c, ast.With) and len(c.items) == 1):
        raise SiteError(f"copy block changed: {src(c)[:80]}")
    jf, jmode, fin = _open_call(c.items[0], "job file")
    if jf != "job_file" or jmode not in ("r", "rt"):
        raise SiteError(f"copy block opens {jf} with mode {jmode!r}")
    cl = the(_not_logging(c.body), "statement in the copy block")
    if not (isinstance(cl, ast.For) and src(cl.target) == "line" and src(cl.iter) == fin and not cl.orelse
            and [src(s) for s in cl.body] == [f"{fout}.write(line)"]):
        raise SiteError(f"line copy loop changed: {src(cl)}")
    # 4. os.remove(job_file) after the copy (or not at all)
    rest = st[3:]
    removes = [s for s in rest if src(s) in ("os.remove(job_file)", "os.unlink(job_file)")]
    if len(rest) != len(removes) or len(removes) > 1:
        raise SiteError(f"statements after the copy: {[src(s) for s in rest]}")
    for s in walk_stmts(fn):
        if s not in removes and any(x in src(s).split("\n")[0] for x in ("os.remove", "os.unlink", ".unlink(", "shutil.")) \
                and not isinstance(s, (ast.With, ast.For)):
            raise SiteError(f"file removed elsewhere: {src(s)}")
    return (
        "/-- `open(self._event_filename, …)` in `JobRunner._aggregate_events` keeps what the node's file holds -/\n"
        f"def aggNodeAppends : Bool := {_lbool(node_appends)}\n\n"
        "/-- a configured job without a per-job event file (extensions are not required to create one) -/\n"
        f"def aggOnMissing : OnMissing := {on_missing}\n\n"
        "/-- every line of the per-job file is written to the node's file (no filter, no early exit) -/\n"
        "def aggCopiesAllLines : Bool := true\n\n"
        "/-- `os.remove(job_file)` follows the copy inside the loop -/\n"
        f"def aggRemovesJobFile : Bool := {_lbool(bool(removes))}\n\n"
        "/-- basename of the per-job event file the aggregation looks for under `job-outputs/<job>/` -/\n"
        f"def aggJobFile : String := {lstr(jfile)}"
    )


@site("agg.nodeFile", "ReportsAgg", ["C20"])
def _():
    fn = find_def(RUNNER, "JobRunner.__init__")
    a = the(assigns(fn, "self._event_filename"), "self._event_filename = …")
    parts = _join_parts(a.value, "self._event_filename")
    if len(parts) != 2 or src(parts[0]) != "output":
        raise SiteError(f"self._event_filename = {src(a.value)}")
    f = parts[1]
    if not isinstance(f, ast.JoinedStr):
        raise SiteError(f"node file name is not an f-string: {src(f)}")
    var = {"batch_id": "batch", "self._node_id": "node", "self._batch_id": "batch"}
    terms = []
    for v in f.values:
        if isinstance(v, ast.Constant) and isinstance(v.value, str):
            terms.append(lstr(v.value))
        elif isinstance(v, ast.FormattedValue) and v.format_spec is None and v.conversion == -1 and src(v.value) in var:
            terms.append(var[src(v.value)])
        else:
            raise SiteError(f"node file name part {src(v) if not isinstance(v, ast.Constant) else v.value!r}")
    n = the(assigns(fn, "self._node_id"), "self._node_id = …")
    if src(n.value) != "self._intf.get_node_id()":
        raise SiteError(f"self._node_id = {src(n.value)}")
    return (
        "/-- `JobRunner.__init__`: basename of the node's event file (`batch`, `node` as they are formatted) -/\n"
        f"def nodeFileName (batch node : String) : String := {' ++ '.join(terms) or lstr('')}"
    )


@site("agg.jobLog", "ReportsAgg", ["C20"])
def _():
    fn = find_def(RUN, "run")
    fname, appends = _event_logging_call(fn, "jade/cli/run.py")
    if src(fname) != "event_file":
        raise SiteError(f"run.py logs events to {src(fname)}")
    ef = the(assigns(fn, "event_file"), "event_file = …")
    parts = _join_parts(ef.value, "event_file")
    if len(parts) != 2 or src(parts[0]) != "job_dir":
        raise SiteError(f"event_file = {src(ef.value)}")
    jd = the(assigns(fn, "job_dir"), "job_dir = …")
    if src(jd.value) != "os.path.join(output, name)":
        raise SiteError(f"job_dir = {src(jd.value)}")
    return (
        "/-- `jade-internal run`: the job process's `setup_event_logging(<job dir>/…, mode=…)` keeps what the file holds -/\n"
        f"def jobLogAppends : Bool := {_lbool(appends)}\n\n"
        "/-- basename of the event file a job process writes under `job-outputs/<job>/` -/\n"
        f"def jobLogFile : String := {lstr(const_str(parts[1]))}"
    )


@site("agg.nodeLog", "ReportsAgg", ["C20"])
def _():
    fn = find_def(RUN_JOBS, "run_jobs")
    fname, appends = _event_logging_call(fn, "jade/cli/run_jobs.py")
    if src(fname) != "mgr.event_filename":
        raise SiteError(f"run-jobs logs events to {src(fname)}")
    p = find_def(RUNNER, "JobRunner.event_filename")
    if [src(s) for s in _not_logging(p.body)] != ["return self._event_filename"]:
        raise SiteError("JobRunner.event_filename changed")
    return (
        "/-- `jade-internal run-jobs`: `setup_event_logging(mgr.event_filename, mode=…)` keeps what the node's file holds\n"
        "    (a requeued batch runs on the same batch id and node id) -/\n"
        f"def nodeLogAppends : Bool := {_lbool(appends)}"
    )


@site("agg.submitterLog", "ReportsAgg", ["C20"])
def _():
    names, modes = set(), []
    for rel in SUBMITTERS:
        fn = find_def(rel, rel.split("/")[-1][:-3])
        fname, appends = _event_logging_call(fn, rel)
        a = the(assigns(fn, src(fname)), f"{rel}: {src(fname)} = …")
        parts = _join_parts(a.value, rel)
        if len(parts) != 2 or src(parts[0]) != "output":
            raise SiteError(f"{rel}: {src(a)}")
        names.add(const_str(parts[1]))
        modes.append(appends)
    if len(names) != 1:
        raise SiteError(f"the submitter commands log events to different files: {sorted(names)}")
    return (
        "/-- `jade submit-jobs` / `try-submit-jobs` / `resubmit-jobs`: their common event file … -/\n"
        f"def submitterFile : String := {lstr(names.pop())}\n\n"
        "/-- … which each of them opens keeping what it holds -/\n"
        f"def submitterLogAppends : Bool := {_lbool(all(modes))}"
    )


@site("agg.resubmitClears", "ReportsAgg", ["C20"])
def _():
    """`jade resubmit-jobs` unlinks every file of `events/` (so that the next `EventsSummary` consolidates again)
    before it submits."""
    fn = find_def("jade/cli/resubmit_jobs.py", "resubmit_jobs")
    stmts = list(walk_stmts(fn))
    a = assigns(fn, "events_dir")
    if not a:
        if any("EVENTS_DIR" in src(s) or "events_dir" in src(s) for s in fn.body):
            raise SiteError("resubmit_jobs handles events/ in a shape the site does not read")
        clears = False
    else:
        a = the(a, "events_dir = …")
        if src(a.value) != "Path(output) / EVENTS_DIR":
            raise SiteError(f"events_dir = {src(a.value)}")
        g = the([s for s in stmts if isinstance(s, ast.If) and "events_dir" in src(s.test)], "if events_dir.exists()")
        if src(g.test) != "events_dir.exists()" or g.orelse:
            raise SiteError(f"guard changed: {src(g.test)}")
        lp = the(_not_logging(g.body), "statement under the guard")
        if not (isinstance(lp, ast.For) and src(lp.target) == "path" and not lp.orelse
                and src(lp.iter) in ("list(events_dir.iterdir())", "events_dir.iterdir()")
                and [src(s) for s in _not_logging(lp.body)] == ["path.unlink()"]):
            raise SiteError(f"clearing loop changed: {src(lp)[:100]}")
        sub = [i for i, s in enumerate(stmts) if "mgr.submit_jobs(" in src(s).split("\n")[0]]
        if not sub or stmts.index(g) > sub[0]:
            raise SiteError("events/ is not cleared before the jobs are submitted again")
        clears = True
    return (
        "/-- `jade resubmit-jobs` empties `events/` before it submits again -/\n"
        f"def resubmitClearsEvents : Bool := {_lbool(clears)}"
    )
