"""Translator sites for Gen/Resubmit.lean (C13: resubmission reruns exactly the selected jobs and their dependents).

Extracted from the working tree:
  * `Result.is_canceled/is_failed/is_successful` and the if/elif chain of `ResultsSummary.get_results_by_type`;
  * `_get_jobs_to_resubmit`: the guard `if failed or successful`, which result lists each flag adds, the `if missing`;
  * `_update_with_blocking_jobs`: `max_iter`, the `continue` test, the intersection test, `num_added == 0 -> break`,
    the in-loop assert expression (and the statement shape of the two loops);
  * `ResultsAggregator.clear_results_for_resubmission`: the row filter;
  * `Cluster.prepare_for_resubmission`: its assert, the four assignments, the two branch conditions, the state and
    blockers written;
  * `resubmit_jobs` (the click callback): the refusal structure, `assert promoted`, the order of the steps inside the
    `try`, the `events_dir.exists()` guard, where `demote_from_submitter` runs (finally / after the try), the exit code;
  * `Cluster._promote_to_submitter/_demote_from_submitter/has_submitter/am_i_submitter`.
The hand-written skeleton (Model/Resubmit.lean) calls these definitions.
"""
import ast
from exlib import *  # noqa
import exlib

CLI = "jade/cli/resubmit_jobs.py"
RESULT = "jade/result.py"
AGG = "jade/jobs/results_aggregator.py"
CLUSTER = "jade/jobs/cluster.py"
ENUMS = "jade/enums.py"
JOBS = "jade/models/jobs.py"
P = ["C13"]

PREAMBLE["Resubmit"] = """/-- `JobState` (jade/models/jobs.py); member list checked by site resubmit.enums -/
inductive JState where
  | notSubmitted | submitted | done
  deriving DecidableEq, Repr, Inhabited

/-- `Status` (jade/enums.py): what `JobSubmitter.submit_jobs` returns -/
inductive RoundStatus where
  | good | error | inProgress
  deriving DecidableEq, Repr, Inhabited

/-- the effectful statements inside the `try` of `resubmit_jobs` -/
inductive Step where
  | select    -- jobs_to_resubmit = _get_jobs_to_resubmit(cluster, output, failed, missing, successful)
  | closure   -- updated_blocking_jobs_by_name = _update_with_blocking_jobs(jobs_to_resubmit, output)
  | reset     -- _reset_results(output, jobs_to_resubmit)
  | prepare   -- cluster.prepare_for_resubmission(jobs_to_resubmit, updated_blocking_jobs_by_name)
  | events    -- removal of the files of events/
  | load      -- mgr = JobSubmitter.load(output)
  | round     -- status = mgr.submit_jobs(cluster)
  deriving DecidableEq, Repr
"""


def _body(fn):
    """statements of a function without the docstring"""
    return [s for s in fn.body if not (isinstance(s, ast.Expr) and isinstance(s.value, ast.Constant) and isinstance(s.value.value, str))]


def _enum_members(rel, cls):
    c = find_def(rel, cls)
    out = []
    for st in c.body:
        if isinstance(st, ast.Assign) and len(st.targets) == 1 and isinstance(st.targets[0], ast.Name):
            if not isinstance(st.value, ast.Constant):
                raise SiteError(f"{cls}.{st.targets[0].id} is not a constant")
            out.append((st.targets[0].id, st.value.value))
    return out


def _enum_value(rel, cls, member):
    for k, v in _enum_members(rel, cls):
        if k == member:
            return v
    raise SiteError(f"{cls}.{member} not found")


def _returns(fn):
    return [s for s in walk_stmts(fn) if isinstance(s, ast.Return)]


# ------------------------------------------------------------------------------------------
@site("resubmit.enums", "Resubmit", P)
def _():
    js = _enum_members(JOBS, "JobState")
    if [k for k, _ in js] != ["NOT_SUBMITTED", "SUBMITTED", "DONE"]:
        raise SiteError(f"JobState members changed: {js}")
    st = _enum_members(ENUMS, "Status")
    if [k for k, _ in st] != ["GOOD", "ERROR", "IN_PROGRESS"]:
        raise SiteError(f"Status members changed: {st}")
    for _, v in st:
        if not isinstance(v, int) or isinstance(v, bool):
            raise SiteError("Status values are not integers")
    vals = dict(st)
    jv = dict(js)
    return (
        "/-- `JobState.<member>.value` (the text in job_status.json) -/\n"
        "def JState.value : JState → String\n"
        f"  | .notSubmitted => {lstr(jv['NOT_SUBMITTED'])}\n  | .submitted => {lstr(jv['SUBMITTED'])}\n  | .done => {lstr(jv['DONE'])}\n\n"
        "/-- `Status.<member>.value` -/\n"
        "def statusValue : RoundStatus → Int\n"
        f"  | .good => {vals['GOOD']}\n  | .error => {vals['ERROR']}\n  | .inProgress => {vals['IN_PROGRESS']}"
    )


@site("resubmit.resultClass", "Resubmit", P)
def _():
    env = {"self.return_code": ("rc", "int"), "self.status": ("status", "str")}
    for m in ("FINISHED", "CANCELED", "MISSING"):
        env[f"JobCompletionStatus.{m}.value"] = (lstr(_enum_value(ENUMS, "JobCompletionStatus", m)), "str")
    defs = []
    for py, lean in (("is_canceled", "isCanceled"), ("is_failed", "isFailed"), ("is_successful", "isSuccessful")):
        fn = find_def(RESULT, f"Result.{py}")
        r = the(_returns(fn), f"return of {py}")
        defs.append(f"/-- `Result.{py}` -/\ndef {lean} (rc : Int) (status : String) : Bool :=\n  {pred(env, r.value)}")
    # get_results_by_type: for result in values(): if/elif chain of appends; returned dict keys -> lists
    fn = find_def(RESULT, "ResultsSummary.get_results_by_type")
    loop = the([s for s in _body(fn) if isinstance(s, ast.For)], "for loop of get_results_by_type")
    if src(loop.iter) != "self._results['results'].values()" or src(loop.target) != "result":
        raise SiteError("get_results_by_type no longer iterates over the results dict")
    if len(loop.body) != 1 or not isinstance(loop.body[0], ast.If):
        raise SiteError("get_results_by_type loop body changed")
    ret = the(_returns(fn), "return of get_results_by_type")
    if not isinstance(ret.value, ast.Dict):
        raise SiteError("get_results_by_type does not return a dict literal")
    key_of_list = {}
    for k, v in zip(ret.value.keys, ret.value.values):
        key_of_list[src(v)] = const_str(k)
    cenv = {"result.is_successful()": ("isSuccessful rc status", "bool"), "result.is_failed()": ("isFailed rc status", "bool"),
            "result.is_canceled()": ("isCanceled rc status", "bool")}
    chain = []
    node = loop.body[0]
    while True:
        if len(node.body) != 1 or not (isinstance(node.body[0], ast.Expr) and isinstance(node.body[0].value, ast.Call)
                                       and isinstance(node.body[0].value.func, ast.Attribute) and node.body[0].value.func.attr == "append"
                                       and src(node.body[0].value.args[0]) == "result"):
            raise SiteError("branch of get_results_by_type is not a single append(result)")
        lst = src(node.body[0].value.func.value)
        if lst not in key_of_list:
            raise SiteError(f"list {lst} is not returned by get_results_by_type")
        chain.append((pred(cenv, node.test), key_of_list[lst]))
        if not node.orelse:
            break
        if len(node.orelse) == 1 and isinstance(node.orelse[0], ast.If):
            node = node.orelse[0]
        else:
            raise SiteError("else branch in get_results_by_type")
    text = "/-- `get_results_by_type`: key of the list a result is appended to (\"\" = none) -/\ndef resultType (rc : Int) (status : String) : String :=\n"
    for i, (t, k) in enumerate(chain):
        text += f"  {'if' if i == 0 else 'else if'} {t} then {lstr(k)}\n"
    text += '  else ""'
    defs.append(text)
    # get_missing_jobs / get_result
    gm = find_def(RESULT, "ResultsSummary.get_missing_jobs")
    gi = the([s for s in walk_stmts(gm) if isinstance(s, ast.If)], "if of get_missing_jobs")
    if src(gi.test) != "self.get_result(job.name) is None" or [src(s) for s in gi.body] != ["missing_jobs.append(job)"] or gi.orelse:
        raise SiteError("get_missing_jobs test changed")
    gr = the(_returns(find_def(RESULT, "ResultsSummary.get_result")), "return of get_result")
    if src(gr.value) != "self._results['results'].get(job_name)":
        raise SiteError("get_result changed")
    dr = the(_returns(find_def(RESULT, "deserialize_results")), "return of deserialize_results")
    if src(dr.value) != "{x['name']: deserialize_result(x) for x in data}":
        raise SiteError("deserialize_results no longer builds a dict by name (last entry wins)")
    defs.append("/-- `get_missing_jobs`: a job is missing iff `get_result(name) is None`; results.json is read into a dict by name -/\n"
                "def missingTest (hasResult : Bool) : Bool := !hasResult")
    return "\n\n".join(defs)


@site("resubmit.select", "Resubmit", P)
def _():
    fn = find_def(CLI, "_get_jobs_to_resubmit")
    if [a.arg for a in fn.args.args] != ["cluster", "output", "failed", "missing", "successful"]:
        raise SiteError("signature of _get_jobs_to_resubmit changed")
    body = _body(fn)
    if [type(s).__name__ for s in body] != ["Assign", "Assign", "If", "If", "Return"]:
        raise SiteError(f"_get_jobs_to_resubmit shape changed: {[type(s).__name__ for s in body]}")
    a1, a2, outer, miss, ret = body
    if src(a1) != "results = ResultsSummary(output)" or src(a2) != "jobs_to_resubmit = []":
        raise SiteError("initialisation of _get_jobs_to_resubmit changed")
    if src(ret) != "return {x.name for x in jobs_to_resubmit}":
        raise SiteError("return of _get_jobs_to_resubmit changed")
    env = {"failed": ("failed", "bool"), "missing": ("missing", "bool"), "successful": ("successful", "bool")}
    guard = pred(env, outer.test)
    ob = outer.body
    if not ob or src(ob[0]) != "res = results.get_results_by_type()" or outer.orelse:
        raise SiteError("get_results_by_type call changed")
    parts = []
    for st in ob[1:]:
        if not isinstance(st, ast.If) or st.orelse:
            raise SiteError("flag branch shape changed")
        keys = []
        for s in st.body:
            if not (isinstance(s, ast.AugAssign) and isinstance(s.op, ast.Add) and src(s.target) == "jobs_to_resubmit"
                    and isinstance(s.value, ast.Subscript) and src(s.value.value) == "res"):
                raise SiteError(f"flag branch statement changed: {src(s)}")
            keys.append(lstr(const_str(s.value.slice)))
        parts.append(f"(if {pred(env, st.test)} then {llist(keys)} else [])")
    if [src(s) for s in miss.body] != ["jobs_to_resubmit += results.get_missing_jobs(cluster.iter_jobs())"] or miss.orelse:
        raise SiteError("missing branch changed")
    return (
        "/-- `if failed or successful:` results.json is classified only then -/\n"
        f"def readsResults (failed successful : Bool) : Bool :=\n  {guard}\n\n"
        "/-- keys of `get_results_by_type()` whose results are added, in statement order -/\n"
        "def typesAdded (failed successful : Bool) : List String :=\n"
        f"  if readsResults failed successful then {' ++ '.join(parts) if parts else '[]'} else []\n\n"
        "/-- `if missing:` adds `get_missing_jobs(cluster.iter_jobs())` -/\n"
        f"def addsMissing (missing : Bool) : Bool :=\n  {pred(env, miss.test)}"
    )


@site("resubmit.closure", "Resubmit", P)
def _():
    fn = find_def(CLI, "_update_with_blocking_jobs")
    body = _body(fn)
    if [type(s).__name__ for s in body] != ["Assign", "Assign", "Assign", "For", "Return"]:
        raise SiteError(f"_update_with_blocking_jobs shape changed: {[type(s).__name__ for s in body]}")
    cfg, init, mi, outer, ret = body
    if src(cfg) != "config = create_config_from_file(Path(output) / CONFIG_FILE)":
        raise SiteError("config load changed")
    if src(init) != "updated_blocking_jobs_by_name = {}" or src(ret) != "return updated_blocking_jobs_by_name":
        raise SiteError("result dict changed")
    if src(mi.targets[0]) != "max_iter":
        raise SiteError("max_iter assignment changed")
    env = {"config.get_num_jobs()": ("numJobs", "nat"), "max_iter": ("maxIter", "nat"), "i": ("i", "nat"),
           "blocking_jobs": ("blocking", "list"), "jobs_to_resubmit": ("cur", "list"),
           "len(jobs_to_resubmit)": ("lenAfter", "nat"), "first": ("first", "nat"), "num_added": ("numAdded", "int")}
    max_iter = pred(env, mi.value, ctx="term")
    if src(outer.iter) != "range(max_iter)" or src(outer.target) != "i" or outer.orelse:
        raise SiteError("outer loop header changed")
    ob = outer.body
    if [type(s).__name__ for s in ob] != ["Assign", "For", "Assign", "If", "Assert"]:
        raise SiteError(f"outer loop body changed: {[type(s).__name__ for s in ob]}")
    first, inner, na, brk, asrt = ob
    if src(first) != "first = len(jobs_to_resubmit)":
        raise SiteError("`first` changed")
    if src(inner.iter) != "config.iter_jobs()" or src(inner.target) != "job" or inner.orelse:
        raise SiteError("inner loop header changed")
    ib = inner.body
    if [type(s).__name__ for s in ib] != ["Assign", "If", "Assign", "If"]:
        raise SiteError(f"inner loop body changed: {[type(s).__name__ for s in ib]}")
    gb, skip, inter, hit = ib
    if src(gb) != "blocking_jobs = job.get_blocking_jobs()":
        raise SiteError("blocking_jobs changed")
    if [src(s) for s in skip.body] != ["continue"] or skip.orelse:
        raise SiteError("skip branch changed")
    skip_t = pred(env, skip.test)
    if src(inter.targets[0]) != "intersecting_jobs":
        raise SiteError("intersecting_jobs assignment changed")
    # the value stored is the intersection itself; the test is its truthiness (or whatever the code tests now)
    stored_is_intersection = src(inter.value) == "blocking_jobs.intersection(jobs_to_resubmit)"
    henv = dict(env)
    henv["intersecting_jobs"] = (Tr(env).truth(inter.value), "bool")
    hit_t = pred(henv, hit.test)
    if [src(s) for s in hit.body] != ["updated_blocking_jobs_by_name[job.name] = intersecting_jobs", "jobs_to_resubmit.add(job.name)"] or hit.orelse:
        raise SiteError("hit branch changed")
    if not stored_is_intersection:
        raise SiteError(f"value stored for a dependent is no longer the intersection: {src(inter.value)}")
    if src(na.targets[0]) != "num_added":
        raise SiteError("num_added changed")
    na_t = pred(env, na.value, ctx="term")
    if [src(s) for s in brk.body] != ["break"] or brk.orelse:
        raise SiteError("break branch changed")
    brk_t = pred(env, brk.test)
    asrt_t = pred(env, asrt.test)
    return (
        "/-- `max_iter = config.get_num_jobs()` -/\n"
        f"def maxIter (numJobs : Nat) : Nat :=\n  {max_iter}\n\n"
        "/-- `if not blocking_jobs: continue` -/\n"
        f"def skipJob (blocking : List Nat) : Bool :=\n  {skip_t}\n\n"
        "/-- `if intersecting_jobs:` with `intersecting_jobs = blocking_jobs.intersection(jobs_to_resubmit)` -/\n"
        f"def closureHit (blocking cur : List Nat) : Bool :=\n  {hit_t}\n\n"
        "/-- `num_added = len(jobs_to_resubmit) - first` -/\n"
        f"def numAdded (lenAfter first : Nat) : Int :=\n  {na_t}\n\n"
        "/-- `if num_added == 0: break` -/\n"
        f"def stopIter (numAdded : Int) : Bool :=\n  {brk_t}\n\n"
        "/-- `assert i < max_iter - 1` (evaluated only after a pass that added something) -/\n"
        f"def assertIter (i maxIter : Nat) : Bool :=\n  {asrt_t}"
    )


@site("resubmit.clear", "Resubmit", P)
def _():
    fn = find_def(AGG, "ResultsAggregator.clear_results_for_resubmission")
    body = _body(fn)
    if len(body) < 2 or src(body[1]) != "self._write_results(results)":
        raise SiteError("clear_results_for_resubmission no longer writes the filtered list")
    a = body[0]
    if not (isinstance(a, ast.Assign) and src(a.targets[0]) == "results" and isinstance(a.value, ast.ListComp)):
        raise SiteError("filter statement changed")
    lc = a.value
    if src(lc.elt) != "x" or len(lc.generators) != 1:
        raise SiteError("filter comprehension changed")
    g = lc.generators[0]
    if src(g.target) != "x" or src(g.iter) != "self.get_results()" or len(g.ifs) != 1:
        raise SiteError("filter source changed")
    env = {"x.name": ("name", "nat"), "jobs_to_resubmit": ("sel", "list")}
    keep = pred(env, g.ifs[0])
    rr = find_def(CLI, "_reset_results")
    if [src(s) for s in _body(rr)] != ["aggregator = ResultsAggregator.load(output)", "aggregator.clear_results_for_resubmission(jobs_to_resubmit)"]:
        raise SiteError("_reset_results changed")
    wr = src(find_def(AGG, "ResultsAggregator._write_results"))
    if "writer.writeheader()" not in wr or "writer.writerows(_results)" not in wr or "open(self._filename, 'w')" not in wr:
        raise SiteError("_write_results changed")
    return ("/-- `[x for x in self.get_results() if <this>]` in `clear_results_for_resubmission` -/\n"
            f"def keepRow (name : Nat) (sel : List Nat) : Bool :=\n  {keep}")


@site("resubmit.prepare", "Resubmit", P + ["C09"])
def _():
    fn = find_def(CLUSTER, "Cluster.prepare_for_resubmission")
    if [a.arg for a in fn.args.args] != ["self", "jobs_to_resubmit", "updated_blocking_jobs_by_name"]:
        raise SiteError("signature of prepare_for_resubmission changed")
    body = _body(fn)
    kinds = [type(s).__name__ for s in body]
    if kinds != ["Assert", "Assign", "Assign", "Assign", "Assign", "For", "Expr", "Expr", "Expr"]:
        raise SiteError(f"prepare_for_resubmission shape changed: {kinds}")
    asrt, *assigns4, loop, s1, s2, s3 = body
    env = {"self._config.is_complete": ("isComplete", "bool"), "self._config.num_jobs": ("numJobs", "nat"),
           "jobs_to_resubmit": ("sel", "list"), "job.name": ("name", "nat"),
           "job.state": ("state", "enum"), "JobState.DONE": ("JState.done", "enum"),
           "JobState.NOT_SUBMITTED": ("JState.notSubmitted", "enum"), "JobState.SUBMITTED": ("JState.submitted", "enum")}
    assert_t = pred(env, asrt.test)
    want = ["self._config.is_complete", "self._config.is_canceled", "self._config.submitted_jobs", "self._config.completed_jobs"]
    got = {}
    for a in assigns4:
        got[src(a.targets[0])] = a.value
    if list(got) != want:
        raise SiteError(f"assignments of prepare_for_resubmission changed: {list(got)}")
    v_complete = pred(env, got[want[0]], ctx="term")
    v_canceled = pred(env, got[want[1]], ctx="term")
    sub_t, sub_ty = Tr(env).tr(got[want[2]])
    if sub_ty == "nat":
        sub_t = f"(({sub_t} : Nat) : Int)"
    comp0 = const_int(got[want[3]])
    if src(loop.iter) != "self.iter_jobs()" or src(loop.target) != "job" or loop.orelse:
        raise SiteError("job loop header changed")
    if len(loop.body) != 1 or not isinstance(loop.body[0], ast.If):
        raise SiteError("job loop body changed")
    br = loop.body[0]
    resets_t = pred(env, br.test)
    rb = {}
    for s in br.body:
        if not (isinstance(s, ast.Assign) and len(s.targets) == 1):
            raise SiteError("reset branch changed")
        rb[src(s.targets[0])] = s.value
    if list(rb) != ["job.state", "job.blocked_by"]:
        raise SiteError(f"reset branch assigns {list(rb)}")
    new_state = pred(env, rb["job.state"], ctx="term")
    if src(rb["job.blocked_by"]) != "updated_blocking_jobs_by_name.get(job.name, set())":
        raise SiteError("blockers written for a reset job changed")
    if not (len(br.orelse) == 1 and isinstance(br.orelse[0], ast.If) and not br.orelse[0].orelse):
        raise SiteError("elif branch changed")
    el = br.orelse[0]
    counts_t = pred(env, el.test)
    if len(el.body) != 1 or not (isinstance(el.body[0], ast.AugAssign) and isinstance(el.body[0].op, ast.Add)
                                 and src(el.body[0].target) == "self._config.completed_jobs"):
        raise SiteError("elif action changed")
    inc = const_int(el.body[0].value)
    ser = [src(s) for s in (s1, s2, s3)]
    if ser != ["self._serialize('prepare_for_resubmission')", "self._serialize_jobs('prepare_for_resubmission')",
               "self.serialize_submission_groups(Path(self._config.path))"]:
        raise SiteError(f"serialisation order changed: {ser}")
    return (
        "/-- `assert self._config.is_complete` -/\n"
        f"def prepAssert (isComplete : Bool) : Bool :=\n  {assert_t}\n\n"
        f"/-- value written to `is_complete` -/\ndef prepIsComplete : Bool := {v_complete}\n\n"
        f"/-- value written to `is_canceled` -/\ndef prepIsCanceled : Bool := {v_canceled}\n\n"
        "/-- `submitted_jobs = num_jobs - len(jobs_to_resubmit)` -/\n"
        f"def prepSubmitted (numJobs : Nat) (sel : List Nat) : Int :=\n  {sub_t}\n\n"
        f"/-- `completed_jobs = <this>` before the loop -/\ndef prepCompleted0 : Nat := {comp0}\n\n"
        "/-- `if job.name in jobs_to_resubmit:` -/\n"
        f"def prepResets (name : Nat) (sel : List Nat) : Bool :=\n  {resets_t}\n\n"
        f"/-- state written for a reset job -/\ndef prepNewState : JState := {new_state}\n\n"
        "/-- `elif job.state == JobState.DONE:` -/\n"
        f"def prepCounts (state : JState) : Bool :=\n  {counts_t}\n\n"
        f"/-- `completed_jobs += <this>` -/\ndef prepCountInc : Nat := {inc}"
    )


def _is_demote(st):
    return isinstance(st, ast.Expr) and src(st) == "cluster.demote_from_submitter()"


def _is_exit(st, code=None):
    if not (isinstance(st, ast.Expr) and isinstance(st.value, ast.Call) and src(st.value.func) == "sys.exit" and len(st.value.args) == 1):
        return False
    return code is None or src(st.value.args[0]) == code


def _is_print(st):
    return isinstance(st, ast.Expr) and isinstance(st.value, ast.Call) and src(st.value.func) == "print"


def _check_events_loop(loop):
    if not (isinstance(loop, ast.For) and src(loop.iter) in ("list(events_dir.iterdir())", "events_dir.iterdir()")
            and [src(x) for x in loop.body if not (isinstance(x, ast.Expr) and isinstance(x.value, ast.Constant))] == ["path.unlink()"]):
        raise SiteError("events cleanup loop changed")


@site("resubmit.cmd", "Resubmit", P)
def _():
    fn = find_def(CLI, "resubmit_jobs")
    if [a.arg for a in fn.args.args] != ["output", "failed", "missing", "successful", "submission_groups_file", "verbose"]:
        raise SiteError("signature of resubmit_jobs changed")
    body = _body(fn)
    # -- 1. load + promote
    idx = next((i for i, s in enumerate(body) if isinstance(s, ast.Assign) and src(s.targets[0]) in ("(cluster, promoted)", "cluster, promoted")), None)
    if idx is None:
        raise SiteError("Cluster.deserialize call not found")
    des = body[idx]
    if src(des.value) != "Cluster.deserialize(output, try_promote_to_submitter=True, deserialize_jobs=True)":
        raise SiteError(f"deserialize arguments changed: {src(des.value)}")
    for s in body[:idx]:
        if not (isinstance(s, ast.Assign) or (isinstance(s, ast.Expr) and isinstance(s.value, ast.Call) and src(s.value.func) in ("setup_event_logging", "setup_logging"))):
            raise SiteError(f"unexpected statement before deserialize: {src(s)}")
    rest = body[idx + 1:]
    kinds = [type(s).__name__ for s in rest]
    if kinds != ["If", "Assert", "If", "Assign", "Try", "Expr"] and kinds != ["If", "Assert", "If", "Assign", "Try", "Expr", "Expr"]:
        raise SiteError(f"resubmit_jobs statement shape changed: {kinds}")
    refuse, asrt, groups, retinit, tr = rest[:5]
    tail = rest[5:]
    env = {"cluster.is_complete()": ("isComplete", "bool"), "promoted": ("promoted", "bool")}
    # -- 2. refusal
    refuse_t = pred(env, refuse.test)
    if refuse.orelse:
        raise SiteError("refusal has an else branch")
    rb = [s for s in refuse.body if not _is_print(s)]
    if not rb or not _is_exit(rb[-1]):
        raise SiteError("refusal does not end in sys.exit")
    exit_code = const_int(rb[-1].value.args[0])
    pre = rb[:-1]
    if not pre:
        demotes = "false"
    elif len(pre) == 1 and _is_demote(pre[0]):
        demotes = "true"
    elif len(pre) == 1 and isinstance(pre[0], ast.If) and not pre[0].orelse and len(pre[0].body) == 1 and _is_demote(pre[0].body[0]):
        demotes = pred(env, pre[0].test)
    else:
        raise SiteError("refusal branch changed")
    assert_t = pred(env, asrt.test)
    # -- 3. submission groups file: checked structurally (where it runs, what its error exits do)
    if src(groups.test) != "submission_groups_file is not None" or groups.orelse:
        raise SiteError("submission-groups guard changed")
    gtext = src(groups)
    exits = [s for s in exlib._walk_stmt(groups) if _is_exit(s)]
    if len(exits) != 2 or not all(_is_exit(s, "1") for s in exits):
        raise SiteError("error exits of the submission-groups block changed")
    if gtext.count("cluster.demote_from_submitter()") != 2:
        raise SiteError("submission-groups error exits no longer demote")
    if "groups = load_data(submission_groups_file)" not in gtext or "group = SubmissionGroup(**_group)" not in gtext or "if cur != orig:" not in gtext:
        raise SiteError("submission-groups block changed")
    # -- 4. ret + try
    if src(retinit) != "ret = 1":
        raise SiteError("initial exit code changed")
    steps = []
    guard = None
    retmap = None
    for s in tr.body:
        t = src(s)
        if t == "jobs_to_resubmit = _get_jobs_to_resubmit(cluster, output, failed, missing, successful)":
            steps.append(".select")
        elif t == "updated_blocking_jobs_by_name = _update_with_blocking_jobs(jobs_to_resubmit, output)":
            steps.append(".closure")
        elif t == "_reset_results(output, jobs_to_resubmit)":
            steps.append(".reset")
        elif t == "cluster.prepare_for_resubmission(jobs_to_resubmit, updated_blocking_jobs_by_name)":
            steps.append(".prepare")
        elif t == "events_dir = Path(output) / EVENTS_DIR":
            continue
        elif isinstance(s, ast.If) and "events_dir" in src(s.test):
            if src(s.test) != "events_dir.exists()" or s.orelse or len(s.body) != 1:
                raise SiteError("events guard changed")
            _check_events_loop(s.body[0])
            guard = "dirExists"
            steps.append(".events")
        elif isinstance(s, ast.For) and "events_dir" in src(s.iter):
            _check_events_loop(s)
            guard = "true"
            steps.append(".events")
        elif t == "mgr = JobSubmitter.load(output)":
            steps.append(".load")
        elif t == "status = mgr.submit_jobs(cluster)":
            steps.append(".round")
        elif isinstance(s, ast.If) and src(s.test) == "status == Status.IN_PROGRESS":
            b = [x for x in s.body if not _is_print(x)]
            if [src(x) for x in b] != ["ret = 0"] or [src(x) for x in s.orelse] != ["ret = status.value"]:
                raise SiteError("exit code mapping changed")
            retmap = True
        else:
            raise SiteError(f"unexpected statement in the try block: {t[:80]}")
    if not retmap:
        raise SiteError("exit code mapping not found")
    if guard is None:
        guard = "false"  # no events cleanup at all
    # handlers must re-raise
    for h in tr.handlers:
        if not h.body or not isinstance(h.body[-1], ast.Raise) or h.body[-1].exc is not None:
            raise SiteError("an except handler of resubmit_jobs swallows the exception")
    fin = [s for s in tr.finalbody]
    on_exc = any(_is_demote(s) for s in fin)
    after = [s for s in tail if not _is_exit(s)]
    on_ret = on_exc or any(_is_demote(s) for s in after)
    if not tail or not _is_exit(tail[-1], "ret"):
        raise SiteError("final sys.exit(ret) changed")
    return (
        "/-- `if not cluster.is_complete():` -/\n"
        f"def refuses (isComplete : Bool) : Bool :=\n  {refuse_t}\n\n"
        "/-- whether the refusal calls `cluster.demote_from_submitter()` -/\n"
        f"def refuseDemotes (promoted : Bool) : Bool :=\n  {demotes}\n\n"
        f"/-- `sys.exit(<this>)` of the refusal -/\ndef refuseExit : Int := {exit_code}\n\n"
        "/-- `assert promoted` -/\n"
        f"def assertPromoted (promoted : Bool) : Bool :=\n  {assert_t}\n\n"
        "/-- the `-s` block runs after promotion and before the `try`; its two error exits demote and `sys.exit(1)` -/\n"
        "def groupsErrorExit : Int := 1\n\n"
        f"/-- `ret = 1` before the try -/\ndef retInit : Int := 1\n\n"
        "/-- effectful statements of the `try` block in statement order -/\n"
        f"def trySteps : List Step :=\n  {llist(steps)}\n\n"
        "/-- the files of events/ are unlinked iff this holds (`if events_dir.exists():`) -/\n"
        f"def eventsGuard (dirExists : Bool) : Bool :=\n  {guard}\n\n"
        "/-- `if status == Status.IN_PROGRESS: ret = 0 else: ret = status.value` -/\n"
        "def retOf (st : RoundStatus) : Int :=\n  if st == RoundStatus.inProgress then 0 else statusValue st\n\n"
        "/-- `cluster.demote_from_submitter()` runs when the try block raised (it is in `finally`) -/\n"
        f"def demoteOnException : Bool := {'true' if on_exc else 'false'}\n\n"
        "/-- `cluster.demote_from_submitter()` runs when the try block completed -/\n"
        f"def demoteOnReturn : Bool := {'true' if on_ret else 'false'}"
    )


@site("resubmit.role", "Resubmit", P + ["C10"])
def _():
    hs = the(_returns(find_def(CLUSTER, "Cluster.has_submitter")), "return of has_submitter")
    if src(hs.value) != "self._config.submitter is not None":
        raise SiteError("has_submitter changed")
    am = the(_returns(find_def(CLUSTER, "Cluster.am_i_submitter")), "return of am_i_submitter")
    if src(am.value) != "self._config.submitter == self._hostname":
        raise SiteError("am_i_submitter changed")
    pr = _body(find_def(CLUSTER, "Cluster._promote_to_submitter"))
    if [type(s).__name__ for s in pr] != ["If", "Assign", "If", "Return"]:
        raise SiteError("_promote_to_submitter shape changed")
    env = {"self.has_submitter()": ("(submitter).isSome", "bool")}
    refuse_t = pred(env, pr[0].test)
    if [src(s) for s in pr[0].body] != ["return False"] or pr[0].orelse:
        raise SiteError("promotion refusal changed")
    if src(pr[1]) != "self._config.submitter = self._hostname" or src(pr[3]) != "return True":
        raise SiteError("promotion changed")
    if src(pr[2]) != "if serialize:\n    self._serialize('promote_to_submitter')":
        raise SiteError("promotion serialisation changed")
    dm = _body(find_def(CLUSTER, "Cluster._demote_from_submitter"))
    if [type(s).__name__ for s in dm] != ["Assert", "Assign", "If"]:
        raise SiteError("_demote_from_submitter shape changed")
    if src(dm[0].test) != "self.am_i_submitter()" or src(dm[1]) != "self._config.submitter = None":
        raise SiteError("demotion changed")
    if src(dm[2]) != "if serialize:\n    self._serialize('demote_from_submitter')":
        raise SiteError("demotion serialisation changed")
    ds = src(find_def(CLUSTER, "Cluster._deserialize"))
    if ds.index("promoted = cluster._promote_to_submitter()") > ds.index("cluster._deserialize_jobs(path)"):
        raise SiteError("_deserialize order changed")
    return (
        "/-- `_promote_to_submitter` returns False without writing when this holds -/\n"
        f"def promoteRefused (submitter : Option String) : Bool :=\n  {refuse_t}\n\n"
        "/-- `assert self.am_i_submitter()` of `_demote_from_submitter` -/\n"
        "def amISubmitter (submitter : Option String) (host : String) : Bool :=\n  submitter == some host"
    )
