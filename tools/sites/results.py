"""Translator sites for Gen/Results.lean (C08: results collected exactly once).

Everything the hand-written model `Model/Results.lean` takes from the source:
the field list, the statement order of `_move_results`, how `_process_results` accumulates,
which entry points go through `_do_action_under_lock` (and that it releases in `finally`),
the lock file name, the header condition and write order of `_append_result`, the open modes,
the glob pattern / node file name, and where the two kinds of writers send their rows.

Sites *follow* the code wherever the change has a meaning in the model (swapped order, `=` for `+=`,
dropped lock, changed mode, changed header test): the generated definition changes, the model
changes with it and the theorems are re-checked against what the code says now.  Shapes the
model cannot express raise SiteError (stale site -> correspondence decides).
"""
import ast
from exlib import *  # noqa

RA = "jade/jobs/results_aggregator.py"
RES = "jade/result.py"
ACC = "jade/jobs/async_cli_command.py"
HPCSUB = "jade/hpc/hpc_submitter.py"
COMMON = "jade/common.py"

PROPS = ["C08", "C03", "C12"]

FIELD_CTORS = {
    "name": "name", "return_code": "returnCode", "status": "status", "exec_time_s": "execTime",
    "completion_time": "completionTime", "hpc_job_id": "hpcJobId",
}

PREAMBLE["Results"] = """/-- the attributes of `jade.result.Result` known to the model -/
inductive Field where
  | name | returnCode | status | execTime | completionTime | hpcJobId
  deriving Repr, DecidableEq

/-- statements of `ResultsAggregator._move_results` -/
inductive MoveAct where
  | read     -- `results = self._get_results()`
  | append   -- `func(results)`
  | remove   -- `os.remove(self._filename)`
  deriving Repr, DecidableEq

/-- one `f_out.write(..)` of `_append_result` -/
inductive WriteTok where
  | header   -- `delimiter.join(fields)`
  | text     -- the row
  | nl       -- "\\n"
  deriving Repr, DecidableEq
"""


def chars(s):
    """Python str -> Lean `List Char` literal"""
    def one(c):
        if c == "'":
            return "'\\''"
        if c == "\\":
            return "'\\\\'"
        if c == "\n":
            return "'\\n'"
        if 32 <= ord(c) < 127:
            return f"'{c}'"
        return "(Char.ofNat %d)" % ord(c)
    return "[" + ", ".join(one(c) for c in s) + "]"


def lbool(b):
    return "true" if b else "false"


def module_const(rel, name):
    for st in module(rel).body:
        if isinstance(st, ast.Assign) and len(st.targets) == 1 and src(st.targets[0]) == name:
            return const_str(st.value)
    raise SiteError(f"{rel}: constant {name} not found")


def calls_in(fn):
    """every Call node inside a function (each once, source order)"""
    return [n for n in ast.walk(fn) if isinstance(n, ast.Call)]


# --------------------------------------------------------------------------------------------
@site("results.fields", "Results", PROPS + ["C20"])
def _():
    c = find_def(RES, "Result")
    base = the(c.bases, "base class of Result")
    if not (isinstance(base, ast.Call) and src(base.func) == "namedtuple" and len(base.args) == 2):
        raise SiteError(f"Result is no longer a namedtuple: {src(base)}")
    spec = const_str(base.args[1])
    names = [x.strip() for x in spec.replace(",", " ").split()]
    gf = find_def(RA, "ResultsAggregator._get_fields")
    if [src(s) for s in gf.body if not isinstance(s, ast.Expr)] != ["return Result._fields"]:
        raise SiteError("_get_fields no longer returns Result._fields")
    for n in names:
        if n not in FIELD_CTORS:
            raise SiteError(f"field {n!r} unknown to the model")
    ctors = [f".{FIELD_CTORS[n]}" for n in names]
    arms = "\n".join(f"  | .{FIELD_CTORS[n]} => {chars(n)}" for n in FIELD_CTORS)
    return (
        "/-- `Result._fields`, in order -/\n"
        f"def resultFields : List Field := {llist(ctors)}\n\n"
        "/-- the Python attribute name (= CSV column name) of a field -/\n"
        f"def Field.pyName : Field → List Char\n{arms}"
    )


@site("results.rowText", "Results", PROPS)
def _():
    """append_result and _append_processed_results render a row the same way:
    delimiter.join([str(getattr(result, x)) for x in fields]); default delimiter ','."""
    want = "self._delimiter.join([str(getattr(result, x)) for x in self._get_fields()])"
    a = the(assigns(find_def(RA, "ResultsAggregator.append_result"), "text"), "text = … in append_result")
    b = the(assigns(find_def(RA, "ResultsAggregator._append_processed_results"), "text"), "text = … in _append_processed_results")
    if src(a.value) != want or src(b.value) != want:
        raise SiteError(f"row text expression changed: {src(a.value)} / {src(b.value)}")
    init = find_def(RA, "ResultsAggregator.__init__")
    args = [x.arg for x in init.args.args]
    d = init.args.defaults[args.index("delimiter") - (len(args) - len(init.args.defaults))]
    delim = const_str(d)
    if len(delim) != 1:
        raise SiteError("delimiter is not a single character")
    if "self._delimiter = delimiter" not in src(init):
        raise SiteError("delimiter is not stored as given")
    return f"/-- default `delimiter` of `ResultsAggregator` -/\ndef delimiter : Char := {chars(delim)[1:-1]}"


@site("results.moveOrder", "Results", PROPS)
def _():
    fn = find_def(RA, "ResultsAggregator._move_results")
    acts = []
    body = [s for s in fn.body if not (isinstance(s, ast.Expr) and isinstance(s.value, ast.Constant))]
    if not body or src(body[-1]) != "return results":
        raise SiteError("_move_results no longer ends with `return results`")
    for st in body[:-1]:
        t = src(st)
        if t == "results = self._get_results()":
            acts.append(".read")
        elif t == "func(results)":
            acts.append(".append")
        elif t == "os.remove(self._filename)":
            acts.append(".remove")
        else:
            raise SiteError(f"unknown statement in _move_results: {t}")
    return ("/-- statement order inside `_move_results` (before `return results`) -/\n"
            f"def moveOrder : List MoveAct := {llist(acts)}")


@site("results.processLoop", "Results", PROPS)
def _():
    fn = find_def(RA, "ResultsAggregator._process_results")
    body = [s for s in fn.body if not (isinstance(s, ast.Expr) and isinstance(s.value, ast.Constant))]
    if len(body) != 3 or src(body[0]) != "results = []" or src(body[2]) != "return results":
        raise SiteError("_process_results skeleton changed: " + " | ".join(src(s).split("\n")[0] for s in body))
    lp = body[1]
    if not (isinstance(lp, ast.For) and src(lp.target) == "path" and src(lp.iter) == "self._get_node_results_files()" and not lp.orelse):
        raise SiteError("_process_results no longer iterates self._get_node_results_files()")
    if len(lp.body) != 2 or src(lp.body[0]) != "agg = ResultsAggregator.load_node_results_file(path)":
        raise SiteError("loop body of _process_results changed")
    st = lp.body[1]
    call = "agg.move_results(self._append_processed_results)"
    if isinstance(st, ast.AugAssign) and isinstance(st.op, ast.Add) and src(st.target) == "results" and src(st.value) == call:
        acc = True
    elif isinstance(st, ast.Assign) and len(st.targets) == 1 and src(st.targets[0]) == "results" and src(st.value) == call:
        acc = False
    else:
        raise SiteError(f"unexpected accumulation statement: {src(st)}")
    lf = find_def(RA, "ResultsAggregator.load_node_results_file")
    if "return cls(path, **kwargs)" not in src(lf):
        raise SiteError("load_node_results_file changed")
    return ("/-- `_process_results`: `results += agg.move_results(self._append_processed_results)` for every path of\n"
            "    `self._get_node_results_files()` (false: plain `=`, only the last file's rows are returned) -/\n"
            f"def processAccumulates : Bool := {lbool(acc)}")


def _under_lock(qual, worker):
    fn = find_def(RA, qual)
    locked = direct = False
    for c in calls_in(fn):
        f = src(c.func)
        if f == "self._do_action_under_lock" and c.args and src(c.args[0]) == f"self.{worker}":
            locked = True
        if f == f"self.{worker}":
            direct = True
    if locked and not direct:
        return True
    if direct and not locked:
        return False
    raise SiteError(f"{qual}: cannot tell whether {worker} runs under the lock")


@site("results.underLock", "Results", PROPS)
def _():
    flags = {
        "processUnderLock": _under_lock("ResultsAggregator.process_results", "_process_results"),
        "moveUnderLock": _under_lock("ResultsAggregator.move_results", "_move_results"),
        "appendUnderLock": _under_lock("ResultsAggregator.append_result", "_append_result"),
        "getResultsUnderLock": _under_lock("ResultsAggregator.get_results", "_get_all_results"),
        "createUnderLock": _under_lock("ResultsAggregator.create_files", "_create_files"),
    }
    fn = find_def(RA, "ResultsAggregator._do_action_under_lock")
    lk = the(assigns(fn, "lock"), "lock = SoftFileLock(…)")
    if src(lk.value) != "SoftFileLock(self._lock_file, timeout=self._timeout)":
        raise SiteError(f"lock construction changed: {src(lk.value)}")
    tries = [s for s in fn.body if isinstance(s, ast.Try)]
    if not tries:
        raise SiteError("_do_action_under_lock no longer has the acquire-try")
    acq = tries[0]
    if [src(s) for s in acq.body] != ["lock.acquire(timeout=self._timeout)"]:
        raise SiteError("acquire statement changed")
    # every handler of the acquire-try must re-raise (no action without the lock)
    for h in acq.handlers:
        if not (h.body and isinstance(h.body[-1], ast.Raise) and h.body[-1].exc is None):
            raise SiteError("acquire failure is swallowed")
    after = fn.body[fn.body.index(acq) + 1:]
    if len(tries) == 2 and after and after[-1] is tries[1]:
        act = tries[1]
        if [src(s) for s in act.body] != ["return func(*args, **kwargs)"] or act.handlers:
            raise SiteError("action statement changed")
        fin = [src(s) for s in act.finalbody] == ["lock.release()"]
        if not fin and "lock.release()" not in src(act):
            raise SiteError("the lock is never released")
    elif len(tries) == 1 and [src(s) for s in after[-3:]] == ["result = func(*args, **kwargs)", "lock.release()", "return result"]:
        fin = False   # released only when the action returns normally
    else:
        raise SiteError("cannot find the action / release of _do_action_under_lock")
    # nothing but bookkeeping between the two trys
    out = "\n".join(f"def {k} : Bool := {lbool(v)}" for k, v in flags.items())
    return ("/-- which public entry points run their worker through `_do_action_under_lock` -/\n" + out +
            "\n/-- `_do_action_under_lock`: `try: return func(..) finally: lock.release()` -/\n"
            f"def releaseInFinally : Bool := {lbool(fin)}")


@site("results.lockName", "Results", PROPS)
def _():
    fn = find_def(RA, "ResultsAggregator.__init__")
    a = the(assigns(fn, "self._lock_file"), "self._lock_file = …")
    v = a.value
    ok = (isinstance(v, ast.BinOp) and isinstance(v.op, ast.Div) and src(v.left) == "self._filename.parent"
          and isinstance(v.right, ast.BinOp) and isinstance(v.right.op, ast.Add) and src(v.right.left) == "self._filename.name")
    if not ok:
        raise SiteError(f"lock file expression changed: {src(v)}")
    suffix = const_str(v.right.right)
    fa = the(assigns(fn, "self._filename"), "self._filename = …")
    if src(fa.value) != "filename":
        raise SiteError("self._filename is not the constructor argument")
    return ("/-- `self._lock_file = self._filename.parent / (self._filename.name + <suffix>)`: one lock per file, same directory -/\n"
            f"def lockSuffix : List Char := {chars(suffix)}")


def _with_open(fn):
    w = the([s for s in fn.body if isinstance(s, ast.With)], "with open(…)")
    item = the(w.items, "with item")
    c = item.context_expr
    if not (isinstance(c, ast.Call) and src(c.func) == "open" and c.args and src(c.args[0]) == "self._filename"):
        raise SiteError(f"unexpected with-item {src(c)}")
    mode = const_str(c.args[1]) if len(c.args) > 1 else "r"
    if c.keywords:
        raise SiteError("open() has keyword arguments")
    return w, mode, (src(item.optional_vars) if item.optional_vars is not None else None)


def _write_tok(st):
    if not (isinstance(st, ast.Expr) and isinstance(st.value, ast.Call) and src(st.value.func) == "f_out.write" and len(st.value.args) == 1):
        raise SiteError(f"not a write: {src(st)}")
    a = src(st.value.args[0])
    if a == "self._delimiter.join(self._get_fields())":
        return ".header"
    if a == "text":
        return ".text"
    if a == "'\\n'":
        return ".nl"
    raise SiteError(f"unknown write argument {a}")


@site("results.header", "Results", PROPS)
def _():
    fn = find_def(RA, "ResultsAggregator._append_result")
    w, mode, var = _with_open(fn)
    if var != "f_out":
        raise SiteError("file variable renamed")
    cond = "false"
    hdr, tail = [], []
    for st in w.body:
        if isinstance(st, ast.If):
            if hdr or tail or st.orelse:
                raise SiteError("header `if` is not the first statement / has an else")
            cond = pred({"f_out.tell()": ("pos", "nat")}, st.test)
            hdr = [_write_tok(s) for s in st.body]
        else:
            tail.append(_write_tok(st))
    cf = find_def(RA, "ResultsAggregator._create_files")
    cw, cmode, _ = _with_open(cf)
    created = [_write_tok(s) for s in cw.body]
    return (
        "/-- test guarding the header writes of `_append_result` (`pos` = `f_out.tell()` right after open) -/\n"
        f"def headerCond (pos : Nat) : Bool := {cond}\n\n"
        "/-- writes under that test, then the unconditional writes -/\n"
        f"def headerWrites : List WriteTok := {llist(hdr)}\n"
        f"def rowWrites : List WriteTok := {llist(tail)}\n"
        "/-- writes of `_create_files` -/\n"
        f"def createWrites : List WriteTok := {llist(created)}"
    )


@site("results.modes", "Results", PROPS)
def _():
    _, m_app, _ = _with_open(find_def(RA, "ResultsAggregator._append_result"))
    pw, m_proc, _ = _with_open(find_def(RA, "ResultsAggregator._append_processed_results"))
    _, m_create, _ = _with_open(find_def(RA, "ResultsAggregator._create_files"))
    _, m_read, _ = _with_open(find_def(RA, "ResultsAggregator._get_results"))
    for m in (m_app, m_proc, m_create):
        if m not in ("a", "w"):
            raise SiteError(f"open mode {m!r} not modelled")
    if m_read != "r":
        raise SiteError(f"_get_results opens with {m_read!r}")
    # body of the processed-results writer: [if f_out.tell() == 0: header, nl]  for result in results: text = …; write(text); write(nl)
    body = list(pw.body)
    pcond, phdr = "false", []
    if body and isinstance(body[0], ast.If):
        g = body.pop(0)
        if g.orelse:
            raise SiteError("header guard of _append_processed_results has an else")
        pcond = pred({"f_out.tell()": ("pos", "nat")}, g.test)
        phdr = [_write_tok(x) for x in g.body]
    lp = the([x for x in body if isinstance(x, ast.For)], "for result in results")
    if src(lp.target) != "result" or src(lp.iter) != "results" or len(body) != 1:
        raise SiteError("_append_processed_results loop changed")
    toks = [_write_tok(x) for x in lp.body[1:]]
    if toks != [".text", ".nl"]:
        raise SiteError(f"_append_processed_results writes {toks}")
    return (
        "/-- open modes: \"w\" truncates, \"a\" keeps the content and positions at the end -/\n"
        f"def appendMode : String := {lstr(m_app)}\n"
        f"def processedMode : String := {lstr(m_proc)}\n"
        f"def createMode : String := {lstr(m_create)}\n"
        f"def appendTruncates : Bool := {lbool(m_app == 'w')}\n"
        f"def processedTruncates : Bool := {lbool(m_proc == 'w')}\n\n"
        "/-- header guard of `_append_processed_results` (`false`, no writes: there is none) -/\n"
        f"def processedHeaderCond (pos : Nat) : Bool := {pcond}\n"
        f"def processedHeaderWrites : List WriteTok := {llist(phdr)}"
    )


@site("results.glob", "Results", PROPS)
def _():
    fn = find_def(RA, "ResultsAggregator._get_node_results_files")
    ret = the([s for s in fn.body if isinstance(s, ast.Return)], "return")
    v = ret.value
    if not (isinstance(v, ast.Call) and src(v.func) == "list" and len(v.args) == 1 and isinstance(v.args[0], ast.Call)
            and src(v.args[0].func) == "(self._filename.parent / RESULTS_DIR).glob"):
        raise SiteError(f"glob expression changed: {src(v)}")
    pat = const_str(v.args[0].args[0])
    if pat.count("*") != 1 or any(ch in pat for ch in "?[]"):
        raise SiteError(f"glob pattern {pat!r} is not of the form prefix*suffix")
    pre, suf = pat.split("*")
    ln = find_def(RA, "ResultsAggregator.load_node_results")
    r2 = the([s for s in ln.body if isinstance(s, ast.Return)], "return").value
    if not (isinstance(r2, ast.Call) and src(r2.func) == "cls" and isinstance(r2.args[0], ast.BinOp)):
        raise SiteError("load_node_results changed")
    p = r2.args[0]
    if not (src(p.left) == "Path(output_dir) / RESULTS_DIR" and isinstance(p.right, ast.JoinedStr)):
        raise SiteError(f"node file path changed: {src(p)}")
    parts = p.right.values
    if not (len(parts) == 3 and isinstance(parts[0], ast.Constant) and isinstance(parts[1], ast.FormattedValue)
            and src(parts[1].value) == "batch_id" and parts[1].format_spec is None and isinstance(parts[2], ast.Constant)):
        raise SiteError(f"node file name changed: {src(p.right)}")
    npre, nsuf = parts[0].value, parts[2].value
    ld = find_def(RA, "ResultsAggregator.load")
    if "return cls(Path(output_dir) / PROCESSED_RESULTS_FILENAME, **kwargs)" not in src(ld):
        raise SiteError("load changed")
    cons = module_const(RA, "PROCESSED_RESULTS_FILENAME")
    init = find_def(RA, "ResultsAggregator.__init__")
    isn = the(assigns(init, "self._is_node"), "self._is_node")
    if src(isn.value) != "'batch' in filename.name":
        raise SiteError(f"_is_node changed: {src(isn.value)}")
    return (
        "/-- `_get_node_results_files`: `(parent / RESULTS_DIR).glob(prefix*suffix)` -/\n"
        f"def globPrefix : List Char := {chars(pre)}\n"
        f"def globSuffix : List Char := {chars(suf)}\n"
        "/-- `load_node_results`: `Path(output_dir) / RESULTS_DIR / f\"<prefix>{batch_id}<suffix>\"` -/\n"
        f"def nodePrefix : List Char := {chars(npre)}\n"
        f"def nodeSuffix : List Char := {chars(nsuf)}\n"
        "/-- name of the consolidated file (`load`: `Path(output_dir) / PROCESSED_RESULTS_FILENAME`) -/\n"
        f"def consName : List Char := {chars(cons)}\n"
        "/-- `_is_node` of the consolidated / of a node aggregator (`\"batch\" in filename.name`) -/\n"
        f"def consIsNode : Bool := {lbool('batch' in cons)}\n"
        f"def nodeIsNode : Bool := {lbool('batch' in npre or 'batch' in nsuf)}"
    )


@site("results.writers", "Results", PROPS)
def _():
    """Where the writers send their rows: job runners to the node file of their batch,
    the submitter's cancellation directly to the consolidated file."""
    ap = find_def(RA, "ResultsAggregator.append")
    i = the([s for s in ap.body if isinstance(s, ast.If)], "if batch_id is None")
    ok_append = (src(i.test) == "batch_id is None" and [src(s) for s in i.body] == ["aggregator = cls.load(output_dir)"]
                 and [src(s) for s in i.orelse] == ["aggregator = cls.load_node_results(output_dir, batch_id)"]
                 and src(ap.body[-1]) == "aggregator.append_result(result)")
    if not ok_append:
        raise SiteError("ResultsAggregator.append changed")
    want = "ResultsAggregator.append(self._output, result, batch_id=self._batch_id)"
    runner = True
    for q in ("AsyncCliCommand._complete", "AsyncCliCommand.cancel"):
        cs = [src(c) for c in calls_in(find_def(ACC, q)) if src(c.func).startswith("ResultsAggregator.")]
        if cs != [want]:
            runner = False
    cj = find_def(HPCSUB, "HpcSubmitter._cancel_job")
    cs = [src(c) for c in calls_in(cj) if "append" in src(c.func)]
    uc = find_def(HPCSUB, "HpcSubmitter._update_completed_jobs")
    agg = the(assigns(uc, "aggregator"), "aggregator = …")
    cancel_cons = cs == ["aggregator.append_result(result)"] and src(agg.value) == "ResultsAggregator.load(self._output)"
    proc = [src(c) for c in calls_in(uc) if src(c.func) == "aggregator.process_results"]
    canc = [src(c) for c in calls_in(uc) if src(c.func) == "self._cancel_job"]
    if proc != ["aggregator.process_results()"] or canc != ["self._cancel_job(job, aggregator)"]:
        raise SiteError("_update_completed_jobs no longer calls process_results / _cancel_job as modelled")
    return (
        "/-- `AsyncCliCommand._complete/cancel` append to the node file of their batch -/\n"
        f"def runnerAppendsToNodeFile : Bool := {lbool(runner)}\n"
        "/-- `HpcSubmitter._cancel_job` appends to the consolidated file (`ResultsAggregator.load(output).append_result`) -/\n"
        f"def cancelToConsolidated : Bool := {lbool(cancel_cons)}"
    )


@site("results.parseShape", "Results", PROPS)
def _():
    fn = find_def(RA, "ResultsAggregator._get_results")
    text = src(fn)
    need = [
        "reader = csv.DictReader(f_in, delimiter=self._delimiter)",
        "for row in reader:",
        "row['return_code'] = int(row['return_code'])",
        "row['exec_time_s'] = float(row['exec_time_s'])",
        "row['completion_time'] = float(row['completion_time'])",
        "result = deserialize_result(row)",
        "results.append(result)",
        "return results",
    ]
    missing = [n for n in need if n not in text]
    if missing:
        raise SiteError("_get_results changed: " + "; ".join(missing))
    ds = src(find_def(RES, "deserialize_result"))
    need2 = ["hpc_job_id = data.get('hpc_job_id')", "if hpc_job_id == 'None':\n        hpc_job_id = None",
             "if 'completion_time' in data.keys():",
             "return Result(data['name'], data['return_code'], data['status'], data['exec_time_s'], completion_time=data['completion_time'], hpc_job_id=hpc_job_id)"]
    missing = [n for n in need2 if n not in ds]
    if missing:
        raise SiteError("deserialize_result changed: " + "; ".join(missing))
    return "/-- `_get_results` / `deserialize_result` have the shape `parseFile` models -/\ndef parseShapeOk : Bool := true"
