"""Translator sites for Gen/Round.lean: the skeleton and the decision rules of one submitter round
(`HpcSubmitter.run`, `_update_completed_jobs`, `_is_complete`, `_update_status`) — what the system model's
round operations (poll, collect…, mark, sbatch…, persist, unmark) and guards (`mustCancel`, `isCompleteDecision`)
are a model *of*.  Proofs/SystemGen.lean proves that the model's definitions are these generated ones."""
import ast
from exlib import *  # noqa

HPCSUB = "jade/hpc/hpc_submitter.py"
P = ["C01", "C02", "C03", "C04", "C05", "C06", "C11", "C12", "C14"]

PREAMBLE["Round"] = """/-- the statements of `HpcSubmitter.run` that touch shared state, in the vocabulary of the system model -/
inductive Act where
  | poll          -- `queue.process_queue()`: ask the scheduler, drop finished batches from the active list
  | collect       -- `completed_job_names, canceled_jobs = self._update_completed_jobs()`
  | markerCheck   -- `if lock_file.exists(): raise`
  | mark          -- `lock_file.touch()`
  | submit        -- the submit phase (gated by `is_canceled`, per group `if not queue.is_full()`)
  | persist       -- `self._update_status(…)`
  | decide        -- `is_complete = self._is_complete()`
  | unmark        -- `os.remove(lock_file)`
  deriving DecidableEq, Repr
"""

KEY = [
    ("queue.process_queue()", "poll"),
    ("(completed_job_names, canceled_jobs) = self._update_completed_jobs()", "collect"),
    ("completed_job_names, canceled_jobs = self._update_completed_jobs()", "collect"),
    ("lock_file.touch()", "mark"),
    ("is_complete = self._is_complete()", "decide"),
    ("os.remove(lock_file)", "unmark"),
]


def _canonical_run(run):
    """`HpcSubmitter.run` with the locals the patterns below mention renamed to the names used there, identified by what
    they are bound to — so that renaming a local (`lock_file` -> `marker`) is not mistaken for a change of the round."""
    ren = {}

    def bind(target, name):
        if isinstance(target, ast.Name):
            if ren.get(target.id, name) != name:
                raise SiteError(f"local {target.id} plays two roles: {ren[target.id]}, {name}")
            ren[target.id] = name

    for st in walk_stmts(run):
        if isinstance(st, ast.For) and src(st.iter) == "self._cluster.config.submission_groups":
            bind(st.target, "group")
        if not (isinstance(st, ast.Assign) and len(st.targets) == 1):
            continue
        t, v = st.targets[0], st.value
        vs = src(v)
        if "LOCK_FILENAME" in vs:
            bind(t, "lock_file")
        elif isinstance(v, ast.Call) and src(v.func) == "JobQueue":
            bind(t, "queue")
        elif vs == "self._is_complete()":
            bind(t, "is_complete")
        elif vs == "self._update_completed_jobs()" and isinstance(t, ast.Tuple) and len(t.elts) == 2:
            bind(t.elts[0], "completed_job_names")
            bind(t.elts[1], "canceled_jobs")
        elif isinstance(t, ast.Name) and "outstanding_jobs" in vs:
            bind(t, "hpc_job_ids")
    # `blocked_jobs` / `submitted_jobs` are both bound to `[]`: they cannot be told apart by their binding, and naming them
    # after their argument position would hide a swap — a rename of those two makes the site stale (baseline + correspondence).
    return rename_locals(run, ren)


@site("round.order", "Round", P)
def _():
    run = _canonical_run(find_def(HPCSUB, "HpcSubmitter.run"))
    acts = []
    gated = None

    def visit(stmts, in_try):
        nonlocal gated
        for st in stmts:
            text = src(st)
            hit = [a for k, a in KEY if text == k]
            if hit:
                acts.append(hit[0])
            elif isinstance(st, ast.If) and src(st.test) == "lock_file.exists()":
                if not (len(st.body) == 1 and isinstance(st.body[0], ast.Raise)):
                    raise SiteError("marker check no longer raises")
                acts.append("markerCheck")
            elif isinstance(st, ast.If) and src(st.test) == "self._cluster.is_canceled()":
                body = " ".join(src(s) for s in st.orelse)
                if "self._submit_batches(queue, group, blocked_jobs, submitted_jobs)" not in body or any("_submit_batches" in src(s) for s in st.body):
                    raise SiteError("cancel gate changed")
                lp = the([s for s in st.orelse if isinstance(s, ast.For)], "for group")
                if src(lp.iter) != "self._cluster.config.submission_groups" or src(lp.body[0]) != "if not queue.is_full():\n    self._submit_batches(queue, group, blocked_jobs, submitted_jobs)":
                    raise SiteError("per-group loop changed")
                gated = True
                acts.append("submit")
            elif isinstance(st, ast.Expr) and src(st).startswith("self._update_status("):
                args = [src(a) for a in st.value.args]
                if args != ["submitted_jobs", "blocked_jobs", "canceled_jobs", "hpc_job_ids", "completed_job_names"]:
                    raise SiteError(f"_update_status arguments changed: {args}")
                acts.append("persist")
            elif isinstance(st, ast.Try):
                if st.finalbody or len(st.handlers) != 1 or not isinstance(st.handlers[0].body[-1], ast.Raise):
                    raise SiteError("try/except of run changed (the handler must re-raise, no finally)")
                visit(st.body, True)
            elif any(k in text for k in ("process_queue", "_update_completed_jobs", "lock_file", "_submit_batches", "_update_status", "_is_complete")) \
                    and not text.startswith(("lock_file = ", "logger.", "raise Exception")):
                if isinstance(st, ast.Assign) and src(st.targets[0]) in ("hpc_job_ids", "num_submissions", "queue", "hpc_submitters", "starting_batch_index"):
                    continue
                if isinstance(st, ast.Return):
                    continue
                raise SiteError(f"unrecognised statement touching the round's shared state: {text[:80]}")
    visit(run.body, False)
    if gated is None:
        raise SiteError("submit phase not found behind the is_canceled gate")
    ids = the(assigns(run, "hpc_job_ids"), "hpc_job_ids = …")
    if src(ids.value) != "sorted([x.job_id for x in queue.outstanding_jobs])":
        raise SiteError("persisted ids are no longer the queue's outstanding jobs")
    return ("/-- `HpcSubmitter.run`, statements in source order -/\n"
            "def runOrder : List Act := [" + ", ".join("." + a for a in acts) + "]\n\n"
            "/-- the submit phase is skipped when `self._cluster.is_canceled()` -/\n"
            "def submitGatedByCancel : Bool := true\n\n"
            "/-- the ids persisted by the round are `queue.outstanding_jobs` after the submit phase -/\n"
            "def persistsOutstanding : Bool := true")


@site("round.collect", "Round", P)
def _():
    uc = find_def(HPCSUB, "HpcSubmitter._update_completed_jobs")
    loop = the(whiles(uc), "while need_to_rerun")
    if src(loop.test) != "need_to_rerun":
        raise SiteError("loop test changed")
    first = the(assigns(uc, "need_to_rerun")[:1], "need_to_rerun = True")
    if src(first.value) != "True":
        raise SiteError("the loop must run at least once")
    # `newly_completed = set()` must be initialised once, BEFORE the loop: the names of every pass are returned
    inits = [s for s in walk_stmts(uc) if isinstance(s, ast.Assign) and src(s.targets[0]) == "newly_completed"]
    the(inits, "newly_completed = set()")
    accumulates = inits[0] in uc.body and src(inits[0].value) == "set()"
    fr = the([s for s in loop.body if isinstance(s, ast.For) and "process_results" in src(s.iter)], "for result in …")
    if src(fr.iter) != "itertools.chain(aggregator.process_results(), new_results)":
        raise SiteError("a pass no longer reads process_results() + the rows canceled in the previous pass")
    if src(fr.body[0]) != "newly_completed.add(result.name)":
        raise SiteError("every result of a pass is newly completed")
    ft = the([s for s in fr.body if isinstance(s, ast.If)], "failed test")
    if [src(s) for s in ft.body] != ["failed_jobs.add(result.name)"] or ft.orelse:
        raise SiteError("failed-set update changed")
    failed = pred({"result.return_code": ("rc", "int")}, ft.test)
    jl = the([s for s in loop.body if isinstance(s, ast.For) and "iter_jobs" in src(s.iter)], "for job in …")
    if src(jl.iter) != "self._cluster.iter_jobs(state=JobState.NOT_SUBMITTED)":
        raise SiteError("the cancel scan is no longer over NOT_SUBMITTED jobs")
    outer = the([s for s in jl.body if isinstance(s, ast.If)], "if job.blocked_by")
    if src(outer.test) != "job.blocked_by" or outer.orelse:
        raise SiteError("outer test of the cancel scan changed")
    inner = the([s for s in outer.body if isinstance(s, ast.If)], "cancel test")
    env = {"job.cancel_on_blocking_job_failure": ("flag", "bool"),
           "job.blocked_by.intersection(failed_jobs)": ("hit", "bool")}
    rule = pred(env, inner.test)
    body = [src(s) for s in inner.body]
    if body != ["result = self._cancel_job(job, aggregator)", "canceled_jobs.append(job)", "new_results.append(result)", "need_to_rerun = True"]:
        raise SiteError(f"cancel branch changed: {body}")
    if [src(s) for s in inner.orelse] != ["job.blocked_by.difference_update(newly_completed)"]:
        raise SiteError("non-cancel branch no longer removes the newly completed blockers")
    if src(uc.body[-1]) != "return (newly_completed, canceled_jobs)" and src(uc.body[-1]) != "return newly_completed, canceled_jobs":
        raise SiteError("return value changed")
    cj = find_def(HPCSUB, "HpcSubmitter._cancel_job")
    text = src(cj)
    for need in ("job.state = JobState.DONE", "job.blocked_by.clear()", "aggregator.append_result(result)", "return result"):
        if need not in text:
            raise SiteError(f"_cancel_job no longer has `{need}`")
    res = the(assigns(cj, "result"), "result = Result(…)")
    args = res.value.args
    if src(res.value.func) != "Result" or src(args[0]) != "job.name" or src(args[2]) != "JobCompletionStatus.CANCELED":
        raise SiteError("the canceled row is no longer Result(job.name, <code>, CANCELED, …)")
    code = const_int(args[1])
    return ("/-- `if result.return_code != 0: failed_jobs.add(result.name)` -/\n"
            f"def failedResult (rc : Int) : Bool :=\n  {failed}\n\n"
            "/-- inside `if job.blocked_by:` — cancel iff flagged and a remaining blocker failed in this pass -/\n"
            f"def cancelRule (flag hit : Bool) : Bool :=\n  {rule}\n\n"
            "/-- `_cancel_job`: return code of the canceled row -/\n"
            f"def cancelCode : Int := {code}\n\n"
            "/-- the loop body runs at least once; rows canceled in a pass feed the next pass -/\n"
            "def collectAtLeastOnce : Bool := true\n\n"
            "/-- `newly_completed` is initialised before the loop: what the round reports is the union over all passes -/\n"
            f"def newlyAccumulatesAcrossPasses : Bool := {'true' if accumulates else 'false'}")


@site("round.isComplete", "Round", P)
def _():
    fn = find_def(HPCSUB, "HpcSubmitter._is_complete")
    a = the(assigns(fn, "is_complete")[:1], "is_complete = …")
    if src(a.value) != "self._cluster.are_all_jobs_complete()":
        raise SiteError("first assignment changed")
    outer = the([s for s in fn.body if isinstance(s, ast.If)], "if not is_complete and not ids")
    env = {"is_complete": ("allDone", "bool"), "self._cluster.job_status.hpc_job_ids": ("ids", "list")}
    cond = pred(env, outer.test)
    inner = the([s for s in outer.body if isinstance(s, ast.If)], "FAKE test")
    if src(inner.test) != "self._hpc_mgr.hpc_type != HpcType.FAKE" or "is_complete = True" not in [src(s) for s in inner.body]:
        raise SiteError("forced completion changed")
    if src(fn.body[-1]) != "return is_complete":
        raise SiteError("return changed")
    return ("/-- `_is_complete` (HPC type ≠ FAKE): all jobs done, or forced when no batch id is recorded -/\n"
            f"def isCompleteRule (allDone : Bool) (ids : List Nat) : Bool :=\n  allDone || ({cond})")
