"""Translator sites for Gen/Slurm.lean (C18 and users of the SLURM boundary)."""
import ast
from exlib import *  # noqa

PREAMBLE["Slurm"] = """inductive Piece where
  | lit (s : String)
  | var (name : String)
  deriving Repr, DecidableEq
"""

SLURM = "jade/hpc/slurm_manager.py"
HPCSUB = "jade/hpc/hpc_submitter.py"


@site("slurm.statuses", "Slurm", ["C18", "C06", "C05", "C12"])
def _():
    d = class_assign(SLURM, "SlurmManager", "_STATUSES")
    if not isinstance(d, ast.Dict):
        raise SiteError("_STATUSES is not a dict literal")
    rows = [f"({lstr(const_str(k))}, {lstr(enum_member(v, 'HpcJobStatus'))})" for k, v in zip(d.keys, d.values)]
    return "/-- SlurmManager._STATUSES -/\ndef statuses : List (String × String) := [\n  " + ",\n  ".join(rows) + "]"


@site("slurm.statusDefault", "Slurm", ["C18", "C06"])
def _():
    fn = find_def(SLURM, "SlurmManager._get_statuses_from_output")
    a = the(assigns(fn, "statuses[job_id]"), "statuses[job_id] = …")
    v = a.value
    if not (isinstance(v, ast.Call) and src(v.func) == "SlurmManager._STATUSES.get" and len(v.args) == 2 and src(v.args[0]) == "status"):
        raise SiteError(f"unexpected lookup {src(v)}")
    return "/-- default of `_STATUSES.get(status, …)` in `_get_statuses_from_output` -/\ndef statusDefault : String := " + lstr(enum_member(v.args[1], "HpcJobStatus"))


@site("slurm.parseShape", "Slurm", ["C18", "C06"])
def _():
    """Shape of the parser loop; the model hard-codes it, the flag records that the shape is
    what the model assumes (split on newline, skip empty, strip+split, 2-field assert)."""
    fn = find_def(SLURM, "SlurmManager._get_statuses_from_output")
    text = src(fn)
    need = [
        "lines = output.split('\\n')",
        "if line == '':\n            continue",
        "fields = line.strip().split()",
        "assert len(fields) == 2",
        "job_id = fields[0]",
        "status = fields[1]",
    ]
    ok = all(n in text for n in need)
    if not ok:
        raise SiteError("parser loop shape changed: " + "; ".join(n for n in need if n not in text))
    return "/-- the parser loop has the shape the hand-written model assumes -/\ndef parseShapeOk : Bool := true"


@site("slurm.collectorDefault", "Slurm", ["C18", "C06"])
def _():
    fn = find_def(HPCSUB, "HpcStatusCollector.check_status")
    rets = [s for s in walk_stmts(fn) if isinstance(s, ast.Return)]
    r = the(rets, "return").value
    if not (isinstance(r, ast.Call) and src(r.func) == "self._statuses.get" and len(r.args) == 2 and src(r.args[0]) == "job_id"):
        raise SiteError(f"unexpected return {src(r)}")
    return "/-- default of `self._statuses.get(job_id, …)` in `HpcStatusCollector.check_status` -/\ndef collectorDefault : String := " + lstr(enum_member(r.args[1], "HpcJobStatus"))


@site("slurm.collectorPropagates", "Slurm", ["C18", "C06", "C05", "C12", "C11", "C15"])
def _():
    """does a failure of the status query (ExecutionError from `check_statuses()`) leave `check_status`?"""
    fn = find_def(HPCSUB, "HpcStatusCollector.check_status")
    calls = [s for s in walk_stmts(fn) if "self._hpc_mgr.check_statuses()" in src(s) and not isinstance(s, (ast.If, ast.Try, ast.For, ast.While, ast.With))]
    the(calls, "call of check_statuses()")
    propagates = True
    for t in [s for s in walk_stmts(fn) if isinstance(s, ast.Try)]:
        if any("self._hpc_mgr.check_statuses()" in src(b) for b in t.body):
            # caught: it still propagates only if every handler ends with a bare `raise`
            if not all(isinstance(h.body[-1], ast.Raise) and h.body[-1].exc is None for h in t.handlers):
                propagates = False
    return ("/-- a failed status query (squeue failing through all retries) is not swallowed by the collector -/\n"
            f"def collectorPropagatesQueryFailure : Bool := {'true' if propagates else 'false'}")


@site("slurm.completeStatuses", "Slurm", ["C18", "C06", "C05", "C12"])
def _():
    fn = find_def(HPCSUB, "AsyncHpcSubmitter.is_complete")
    a = the(assigns(fn, "self._is_complete"), "self._is_complete = …")
    v = a.value
    if not (isinstance(v, ast.Compare) and len(v.ops) == 1 and isinstance(v.ops[0], ast.In) and src(v.left) == "status" and isinstance(v.comparators[0], ast.Tuple)):
        raise SiteError(f"unexpected completion test {src(v)}")
    elems = [lstr(enum_member(e, "HpcJobStatus")) for e in v.comparators[0].elts]
    return "/-- tuple tested in `AsyncHpcSubmitter.is_complete` -/\ndef completeStatuses : List String := " + llist(elems)


@site("slurm.script", "Slurm", ["C18", "C07"])
def _():
    fn = find_def(SLURM, "SlurmManager._create_submission_script_text")
    a = the(assigns(fn, "lines"), "lines = […]")
    if not isinstance(a.value, ast.List):
        raise SiteError("lines is not a list literal")
    header = [pieces(e) for e in a.value.elts]
    loops = [s for s in walk_stmts(fn) if isinstance(s, ast.For)]
    lp = the(loops, "for param in (…)")
    if not (isinstance(lp.iter, ast.Tuple) and src(lp.target) == "param"):
        raise SiteError("optional-parameter loop changed")
    params = [lstr(const_str(e)) for e in lp.iter.elts]
    body = lp.body
    if not (len(body) == 2 and src(body[0]) == "value = getattr(self._config.hpc, param, None)" and isinstance(body[1], ast.If)
            and src(body[1].test) == "value is not None" and len(body[1].body) == 1 and not body[1].orelse):
        raise SiteError("optional-parameter loop body changed")
    call = body[1].body[0]
    if not (isinstance(call, ast.Expr) and isinstance(call.value, ast.Call) and src(call.value.func) == "lines.append"):
        raise SiteError("optional-parameter append changed")
    optline = pieces(call.value.args[0])
    appends = [s.value for s in fn.body if isinstance(s, ast.Expr) and isinstance(s.value, ast.Call) and src(s.value.func) == "lines.append"]
    trailer = [pieces(c.args[0]) for c in appends]
    ret = [s for s in fn.body if isinstance(s, ast.Return)]
    if not (len(ret) == 1 and src(ret[0].value) == "lines"):
        raise SiteError("return changed")
    # statement order: assign, for, appends, return
    kinds = [type(s).__name__ for s in fn.body]
    if kinds != ["Assign", "For"] + ["Expr"] * len(appends) + ["Return"]:
        raise SiteError(f"statement order changed: {kinds}")
    return (
        "/-- `lines = [...]` of `_create_submission_script_text` -/\n"
        "def headerLines : List (List Piece) := [\n  " + ",\n  ".join(header) + "]\n\n"
        "def optionalParams : List String := " + llist(params) + "\n\n"
        "def optionalLine : List Piece := " + optline + "\n\n"
        "def trailerLines : List (List Piece) := " + llist(trailer)
    )


@site("slurm.createScriptJoin", "Slurm", ["C18"])
def _():
    fn = find_def(SLURM, "SlurmManager.create_submission_script")
    text = src(fn)
    if "utils.create_script(filename, '\\n'.join(text) + '\\n')" not in text or "text = self._create_submission_script_text(name, script, path)" not in text:
        raise SiteError("create_submission_script changed")
    return "def scriptJoinOk : Bool := true"


@site("slurm.sbatch", "Slurm", ["C18", "C12"])
def _():
    rx = class_assign(SLURM, "SlurmManager", "_REGEX_SBATCH_OUTPUT")
    if not (isinstance(rx, ast.Call) and src(rx.func) == "re.compile" and len(rx.args) == 1):
        raise SiteError("regex definition changed")
    pat = const_str(rx.args[0])
    fn = find_def(SLURM, "SlurmManager.submit")
    a = the(assigns(fn, "ret"), "ret = run_command(…)")
    c = a.value
    if not (isinstance(c, ast.Call) and src(c.func) == "run_command"):
        raise SiteError("submit no longer calls run_command")
    kw = {k.arg: k.value for k in c.keywords}
    retries = const_int(kw["num_retries"]) if "num_retries" in kw else 0
    if "error_strings" in kw:
        raise SiteError("sbatch now has error_strings")
    cmd = c.args[0]
    if src(cmd) != "'sbatch {}'.format(filename)":
        raise SiteError(f"sbatch command changed: {src(cmd)}")
    # decision structure: ret == 0 -> regex search -> match ? GOOD : ERROR ; else ERROR
    i1 = the([s for s in fn.body if isinstance(s, ast.If)], "if ret == 0")
    if src(i1.test) != "ret == 0":
        raise SiteError(f"outer test changed: {src(i1.test)}")
    inner = the([s for s in i1.body if isinstance(s, ast.If)], "if match")
    if src(inner.test) != "match":
        raise SiteError("inner test changed")
    def res(body):
        v = [src(s.value) for s in body if isinstance(s, ast.Assign) and src(s.targets[0]) == "result"]
        return v[-1] if v else None
    if res(inner.body) != "Status.GOOD" or res(inner.orelse) != "Status.ERROR" or res(i1.orelse) != "Status.ERROR":
        raise SiteError("result assignment changed")
    jid = [src(s.value) for s in inner.body if isinstance(s, ast.Assign) and src(s.targets[0]) == "job_id"]
    if jid != ["match.group(1)"]:
        raise SiteError("job id capture changed")
    m = the(assigns(fn, "match"), "match = …")
    if src(m.value) != "self._REGEX_SBATCH_OUTPUT.search(stdout)":
        raise SiteError("regex use changed")
    ret = the([s for s in fn.body if isinstance(s, ast.Return)], "return")
    if src(ret.value) != "(result, job_id, output['stderr'])":
        raise SiteError("return tuple changed")
    return (
        f"def sbatchRegex : String := {lstr(pat)}\n\n"
        f"def sbatchRetries : Nat := {retries}\n\n"
        "/-- `submit`: GOOD iff ret == 0 and the regex matched; job id = group 1 -/\ndef submitShapeOk : Bool := true"
    )


@site("slurm.squeue", "Slurm", ["C18", "C11"])
def _():
    fn = find_def(SLURM, "SlurmManager.check_statuses")
    a = the(assigns(fn, "ret"), "ret = run_command(…)")
    kw = {k.arg: k.value for k in a.value.keywords}
    retries = const_int(kw["num_retries"]) if "num_retries" in kw else 0
    i1 = the([s for s in fn.body if isinstance(s, ast.If)], "if ret != 0")
    if src(i1.test) != "ret != 0" or not any(isinstance(s, ast.Raise) for s in i1.body):
        raise SiteError("failure branch changed")
    ret = the([s for s in fn.body if isinstance(s, ast.Return)], "return")
    if src(ret.value) != "self._get_statuses_from_output(output['stdout'])":
        raise SiteError("return changed")
    return f"def squeueRetries : Nat := {retries}"


@site("slurm.runScript", "Slurm", ["C18", "C07"])
def _():
    fn = find_def(HPCSUB, "HpcSubmitter._create_run_script")
    t0 = the(assigns(fn, "text"), "text = […]")
    if not (isinstance(t0.value, ast.List) and len(t0.value.elts) == 1):
        raise SiteError("shebang list changed")
    sheb = const_str(t0.value.elts[0])
    d = if_with_test(fn, lambda t: t == "submission_group.submitter_params.distributed_submitter", "if distributed_submitter")
    dt = the([s for s in d.body if isinstance(s, ast.Assign) and src(s.targets[0]) == "dsub"], "dsub true")
    df = the([s for s in d.orelse if isinstance(s, ast.Assign) and src(s.targets[0]) == "dsub"], "dsub false")
    cmd = the(assigns(fn, "command"), "command = f…")
    n = if_with_test(fn, lambda t: t == "submission_group.submitter_params.num_parallel_processes_per_node is not None", "if num procs")
    if not (len(n.body) == 1 and isinstance(n.body[0], ast.AugAssign) and src(n.body[0].target) == "command" and not n.orelse):
        raise SiteError("num-procs suffix changed")
    v = if_with_test(fn, lambda t: t == "submission_group.submitter_params.verbose", "if verbose")
    if not (len(v.body) == 1 and isinstance(v.body[0], ast.AugAssign) and src(v.body[0].target) == "command" and not v.orelse):
        raise SiteError("verbose suffix changed")
    tail = [src(s) for s in fn.body[-2:]]
    if tail != ["text.append(command)", "create_script(filename, '\\n'.join(text) + '\\n')"]:
        raise SiteError(f"tail changed: {tail}")
    # order of the statements that build `command`
    order = [fn.body.index(x) for x in (d, cmd, n, v)]
    if order != sorted(order):
        raise SiteError("statement order changed")
    return (
        f"def runShebang : String := {lstr(sheb)}\n"
        f"def runDsubTrue : String := {lstr(const_str(dt.value))}\n"
        f"def runDsubFalse : String := {lstr(const_str(df.value))}\n"
        f"def runCommand : List Piece := {pieces(cmd.value)}\n"
        f"def runNumProcsSuffix : List Piece := {pieces(n.body[0].value)}\n"
        f"def runVerboseSuffix : String := {lstr(const_str(v.body[0].value))}"
    )


RUNCMD = "jade/utils/run_command.py"


@site("runcmd.loop", "Slurm", ["C18"])
def _():
    fn = find_def(RUNCMD, "run_command")
    mt = the(assigns(fn, "max_tries"), "max_tries")
    if src(mt.value) != "num_retries + 1":
        raise SiteError(f"max_tries = {src(mt.value)}")
    lp = the([s for s in fn.body if isinstance(s, ast.For)], "for")
    if src(lp.iter) != "range(max_tries)" or src(lp.target) != "i":
        raise SiteError("loop header changed")
    body = lp.body
    kinds = [type(s).__name__ for s in body]
    if kinds != ["Assign", "Assign", "If", "If", "Expr"]:
        raise SiteError(f"loop body changed: {kinds}")
    if src(body[1]) != "ret = _run_command(command, _output, cwd, **kwargs)":
        raise SiteError("execution statement changed")
    f1, f2 = body[2], body[3]
    env = {
        "ret": ("a.ret", "int"),
        "num_retries": ("numRetries", "nat"),
        "i": ("i", "nat"),
        "max_tries": ("(numRetries + 1)", "nat"),
        "_output": ("hasOutput", "bool"),
        "_should_exit_early(_output['stderr'], error_strings)": ("a.permanent", "bool"),
    }
    g1 = pred(env, f1.test)
    if not (len(f1.body) == 1 and isinstance(f1.body[0], ast.If)):
        raise SiteError("retry-branch body changed")
    g2n = f1.body[0]
    g2 = pred(env, g2n.test)
    if not (len(g2n.body) == 1 and isinstance(g2n.body[0], ast.If)):
        raise SiteError("early-exit nesting changed")
    g3n = g2n.body[0]
    g3 = pred(env, g3n.test)
    if [src(s) for s in g3n.body] != ["i = max_tries - 1"]:
        raise SiteError("early-exit action changed")
    brk = pred(env, f2.test)
    if not any(isinstance(s, ast.Break) for s in f2.body):
        raise SiteError("no break")
    if src(body[4]) != "time.sleep(retry_delay_s)":
        raise SiteError("sleep changed")
    se = find_def(RUNCMD, "_should_exit_early")
    if "for err in error_strings:\n        if err in std_err:\n            return True\n    return False" not in src(se):
        raise SiteError("_should_exit_early changed")
    # `i = max_tries - 1` makes the break test true: model as `early`
    return (
        "structure Attempt where\n  ret : Int\n  permanent : Bool\n  deriving DecidableEq, Repr\n\n"
        "/-- guard of the early-exit assignment `i = max_tries - 1` -/\n"
        f"def retryEarly (numRetries : Nat) (hasOutput : Bool) (a : Attempt) : Bool :=\n  {g1} && {g2} && {g3}\n\n"
        "/-- break test of the loop (with `i` as seen after a possible early-exit assignment) -/\n"
        f"def retryBreak (numRetries : Nat) (i : Nat) (a : Attempt) : Bool :=\n  {brk}"
    )


