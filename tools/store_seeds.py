#!/usr/bin/env python3
"""dev tool: copy confirmed seeds (/tmp/vs/results.json from verify_seeds.py) into /verif/seeded/<id>-<k>/ with meta.json"""
import json, os, shutil
res = json.load(open('/tmp/vs/results.json'))
for key, r in sorted(res.items()):
    if not r.get('ok'):
        print('skip (not confirmed):', key); continue
    root = '/tmp/seed'
    off = 0
    if ':' in key:
        rn, key2 = key.split(':')
        root, off = '/tmp/' + rn, 2 * (int(rn[4:] or 1) - 1)
    else:
        key2 = key
    pid, ch = key2.split('/')
    k = str(int(ch[-1]) + off)
    src = f'{root}/{pid}/{ch}'
    dst = f'/verif/seeded/{pid}-{k}'
    if os.path.exists(os.path.join(dst, 'meta.json')) or not os.path.exists(src):
        continue
    os.makedirs(dst, exist_ok=True)
    for f in ('patch.diff', 'demo.py', 'README.md'):
        shutil.copy(os.path.join(src, f), os.path.join(dst, f))
    readme = open(os.path.join(src, 'README.md')).read()
    meta = {
        "id": f"{pid}-{k}", "property": pid,
        "files_touched": [l.split('|')[0].strip() for l in r.get('files', [])[:-1]],
        "needs_to_manifest": readme.strip(),
        "produced_by": "fresh sub-agent given only the property text and a scratch worktree of /repo",
        "confirmed": {
            "how": "tools/verify_seeds.py in a scratch worktree of /repo HEAD (removed afterwards): demo.py on the unchanged tree, "
                   "git apply patch.diff, demo.py again, then the pinned test command of /root/.vp/BASELINE.json compared with its stable_pass set",
            "demo_exit_unchanged": r['demo_clean'], "demo_exit_patched": r['demo_patched'],
            "tests_passed_with_patch": r['tests_passed'], "stable_pass_lost": r['lost'],
            "demo_output_patched_tail": r.get('demo_patched_out', '')[-1200:],
        },
        "demo_cmd": "cd /verif/seeded/%s-%s && PYTHONPATH=<worktree> JADE_REGISTRY=<tmp>/registry.json /venv/bin/python demo.py" % (pid, k),
    }
    json.dump(meta, open(os.path.join(dst, 'meta.json'), 'w'), indent=1)
    print('stored', dst)
