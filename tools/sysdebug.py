#!/venv/bin/python
"""dev helper: tools/sysdebug.py PROP seed n [key-substring] — run system cases, print the trace of the first case whose checks match"""
import os, sys, random, json
from pathlib import Path
V = Path(__file__).resolve().parent.parent
sys.path.insert(0, str(V / "harness")); sys.path.insert(0, os.environ.get("JADE_SRC", "/repo"))
os.environ.setdefault("JADE_REGISTRY", str(V / ".jade-registry.json"))
import importlib
S = importlib.import_module("suites.system")
prop, seed, n = sys.argv[1], int(sys.argv[2]), int(sys.argv[3])
key = sys.argv[4] if len(sys.argv) > 4 else ""
cases = S.SUITE.cases(random.Random(seed), "quick", prop)[:n]
res = S.SUITE.impl_many(cases)
for c, r in zip(cases, res):
    if "harness_exception" in r:
        print("HARNESS", r["harness_exception"], r["tb"]); break
    hits = [x for x in r["obs"]["checks"] if key in x[1] or key in x[2]]
    if (key and hits) or (not key and r["obs"]["checks"]):
        print("CASE mode", c["mode"], "seed", c["seed"], json.dumps(c["sc"]))
        print("CHECKS", hits[:5]); print("ERRORS", r["obs"]["errors"]); print("fault", r["obs"]["fault"])
        # rerun in-process to get the trace
        from common import scratch_dir
        with scratch_dir("dbg-") as d:
            run = S.Run(c, str(d)); out = run.run()
            for e in run.vc.trace:
                if e[1] not in ("acq", "rel", "mut") or os.environ.get("FULL"):
                    print(e)
        break
else:
    print("no matching case")
