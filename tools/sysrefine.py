#!/venv/bin/python
"""dev helper: tools/sysrefine.py PROP seed n — run system cases and the Lean replay; print the first differences"""
import os, sys, random, json
from pathlib import Path
V = Path(__file__).resolve().parent.parent
sys.path.insert(0, str(V / "harness")); sys.path.insert(0, os.environ.get("JADE_SRC", "/repo"))
os.environ.setdefault("JADE_REGISTRY", str(V / ".jade-registry.json"))
import importlib, common
S = importlib.import_module("suites.system").SUITE
prop, seed, n = sys.argv[1], int(sys.argv[2]), int(sys.argv[3])
cases = S.cases(random.Random(seed), os.environ.get("VERIF_TIER", "quick"), prop)[:n]
res = S.impl_many(cases)
for r in res:
    if "harness_exception" in r:
        print(r["harness_exception"], r["tb"]); sys.exit(1)
models = common.run_driver([S.model_from_result(c, r) for c, r in zip(cases, res)])
bad = 0; nev = 0
for c, r, m in zip(cases, res, models):
    nev += len(r["hist"]["events"])
    d = S.diff(m, r)
    if d:
        bad += 1
        if bad <= int(os.environ.get("SHOW", "3")):
            print("MODE", c["mode"], "seed", c["seed"], "fault", r["obs"]["fault"]); 
            for x in d[:4]: print("  ", x[:1500])
print(f"{len(cases)} traces, {nev} events, {bad} disagree")
if os.environ.get("DUMP"):
    k = int(os.environ["DUMP"])
    bads = [(c, r, m) for c, r, m in zip(cases, res, models) if S.diff(m, r)]
    if bads:
        c, r, m = bads[min(k, len(bads) - 1)]
        for i, (ev, o) in enumerate(zip(r["hist"]["events"], m["outs"] + ["-"] * 1000)):
            print(i, ev, "=>", o)
