#!/venv/bin/python
"""dev helper: tools/trysuite.py <suite> [n] [seed] — run a suite against the driver without building theorems"""
import os, sys, random, json, time
from pathlib import Path
V = Path(__file__).resolve().parent.parent
sys.path.insert(0, str(V / "harness"))
sys.path.insert(0, os.environ.get("JADE_SRC", "/repo"))
os.environ.setdefault("JADE_REGISTRY", str(V / ".jade-registry.json"))
import common, importlib
from common import canon
name = sys.argv[1]; n = int(sys.argv[2]) if len(sys.argv) > 2 else 200; seed = int(sys.argv[3]) if len(sys.argv) > 3 else 0
suite = importlib.import_module(f"suites.{name}").SUITE
rng = random.Random(seed)
cases = (suite.corpus_cases() + suite.cases(rng, os.environ.get("VERIF_TIER", "quick"), os.environ.get("PROP", "X")))[:n]
t0 = time.time()
suite.setup()
res = []
if hasattr(suite, "impl_many"):
    res = suite.impl_many(cases)
else:
  for c in cases:
    try:
        res.append(suite.impl(c))
    except Exception as e:
        import traceback; traceback.print_exc(); print("CASE", canon(c)[:600]); sys.exit(1)
suite.teardown()
t1 = time.time()
for r in res:
    if isinstance(r, dict) and "harness_exception" in r:
        print("HARNESS EXCEPTION", r["harness_exception"], r.get("tb")); break
model = common.run_driver([suite.model_case(c) for c in cases]) if os.environ.get("NOMODEL") != "1" else [suite.view(r) for r in res]
bad = 0; viol = {}; tags = {}
for c, r, m in zip(cases, res, model):
    if canon(suite.view(r)) != canon(m):
        bad += 1
        if bad <= 3:
            print("DISAGREE\n case:", canon(suite.model_case(c))[:1500], "\n impl:", canon(suite.view(r))[:800], "\n model:", canon(m)[:800])
    for v in suite.oracle(c, r):
        viol.setdefault((v.prop, v.key), []).append(v.msg)
    for t in suite.tags(c, r):
        tags[t] = tags.get(t, 0) + 1
print(f"{len(cases)} cases, impl {t1-t0:.1f}s, disagreements {bad}")
for k, ms in viol.items():
    print("ORACLE", k, len(ms), ms[0][:200])
print(json.dumps(dict(sorted(tags.items()))))
