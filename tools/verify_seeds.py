#!/usr/bin/env python3
"""Confirm seeded changes delivered by sub-agents (dev tool, not part of the checks).

For each /tmp/seed/<id>/change<k>: scratch worktree of /repo HEAD; demo on unchanged code must exit 0; apply
patch; demo must exit 1; the pinned test suite must have the same passing set as BASELINE.json's stable_pass.
Writes /tmp/vs/results.json; removes each worktree.
usage: verify_seeds.py [ID ...]
"""
import json, os, subprocess, sys, glob, shutil, xml.etree.ElementTree as ET

BASE = json.load(open('/root/.vp/BASELINE.json'))
STABLE = set(BASE['stable_pass'])
OUT = '/tmp/vs'
os.makedirs(OUT, exist_ok=True)
RES = os.path.join(OUT, 'results.json')
results = json.load(open(RES)) if os.path.exists(RES) else {}


def sh(cmd, **kw):
    return subprocess.run(cmd, shell=True, capture_output=True, text=True, **kw)


def run_demo(wt, d, tag):
    env = dict(os.environ, PYTHONPATH=wt, JADE_REGISTRY=os.path.join(OUT, 'registry.json'), PYTHONHASHSEED='0')
    env.pop('NREL_JADE_VERIF', None)
    try:
        r = subprocess.run(['/venv/bin/python', 'demo.py'], cwd=d, env=env, capture_output=True, text=True, timeout=1200)
        return r.returncode, (r.stdout + r.stderr)[-3000:]
    except subprocess.TimeoutExpired:
        return 'timeout', ''


def run_tests(wt, tag):
    junit = os.path.join(OUT, f'{tag}.xml')
    cmd = f"cd {wt} && /venv/bin/python -m pytest -ra -q -p no:cacheprovider --timeout=900 --continue-on-collection-errors --junitxml={junit}"
    env = dict(os.environ)
    env.pop('NREL_JADE_VERIF', None)
    env.pop('PYTHONPATH', None)
    sh(cmd, env=env)
    passed = set()
    for tc in ET.parse(junit).getroot().iter('testcase'):
        if not any(ch.tag in ('failure', 'error', 'skipped') for ch in tc):
            passed.add(f"{tc.get('classname')}::{tc.get('name')}")
    os.remove(junit)
    return passed


ROOT = os.environ.get('SEED_ROOT', '/tmp/seed')
ids = sys.argv[1:] or sorted(os.path.basename(p) for p in glob.glob(ROOT + '/C*'))
for pid in ids:
    for ch in sorted(glob.glob(f'{ROOT}/{pid}/change*')):
        k = os.path.basename(ch)
        key = f'{pid}/{k}' if ROOT == '/tmp/seed' else f'{os.path.basename(ROOT)}:{pid}/{k}'
        if key in results and results[key].get('done'):
            continue
        if not os.path.exists(os.path.join(ch, 'patch.diff')) or not os.path.exists(os.path.join(ch, 'demo.py')):
            continue
        wt = os.path.join(OUT, f'wt_{pid}_{k}')
        sh(f'git -C /repo worktree remove --force {wt}')
        r = sh(f'git -C /repo worktree add --detach {wt} HEAD')
        assert r.returncode == 0, r.stderr
        res = {}
        try:
            res['demo_clean'], res['demo_clean_out'] = run_demo(wt, ch, 'clean')
            r = sh(f'git -C {wt} apply {ch}/patch.diff')
            res['applies'] = r.returncode == 0
            if res['applies']:
                res['files'] = sh(f'git -C {wt} diff --stat').stdout.strip().splitlines()
                res['demo_patched'], res['demo_patched_out'] = run_demo(wt, ch, 'patched')
                passed = run_tests(wt, f'{pid}_{k}')
                res['tests_passed'] = len(passed)
                res['lost'] = sorted(STABLE - passed)
                res['ok'] = res['demo_clean'] == 0 and res['demo_patched'] == 1 and not res['lost']
            else:
                res['ok'] = False
                res['apply_err'] = r.stderr
            res['done'] = True
        finally:
            sh(f'git -C /repo worktree remove --force {wt}')
            shutil.rmtree(wt, ignore_errors=True)
        results[key] = res
        json.dump(results, open(RES, 'w'), indent=1)
        print(key, 'OK' if res.get('ok') else 'NOT-OK', res.get('demo_clean'), res.get('demo_patched'), res.get('tests_passed'), res.get('lost'), flush=True)
sh('git -C /repo worktree prune')
